//! Type families for world A: sets of layout-compatible real palette color
//! types, the by-value conversion table that serves as the reference model, and
//! the macro-generated interpreter in which every (current type, original type,
//! clamped | unclamped) combination is a real monomorphic instance of palette's
//! guard code.

use super::{End, Entry, Exec, Op};
use simcore::core::inject_panic;
use core::marker::PhantomData;
use palette::convert::{
    FromColorMut, FromColorMutGuard, FromColorUnclamped, FromColorUnclampedMut, FromColorUnclampedMutGuard, IntoColorMut,
    IntoColorUnclampedMut,
};
use palette::white_point::D65;
use palette::convert::IntoColorUnclamped;
use palette::{Alpha, FromColor, IntoColor, Hsl, Hsv, Hwb, Lab, Lch, LinLuma, LinSrgb, Okhsl, Okhsv, Oklab, Oklch, Srgb, SrgbLuma, Xyz};

pub type Words = [u64; 4];

/// A color type that takes part in a family.
pub trait Elem: Copy + 'static {
    const TAG: u8;
    const NAME: &'static str;
    fn to_words(&self) -> Words;
    fn from_words(w: Words) -> Self;
}

pub struct Clamped;
pub struct Unclamped;
pub struct P<T, U, M>(PhantomData<(T, U, M)>);

/// One node of the interpreter: "a live guard whose current type is `[T]`,
/// original type `[U]`, in mode M".
pub trait Node<'a> {
    type G;
    fn run(g: Self::G, ex: &mut Exec<'_, '_>, body: &[Op], end: End);
}

pub trait SingleNode<'a> {
    type G;
    fn run(g: Self::G, ex: &mut Exec<'_, '_>, body: &[Op], end: End);
}

macro_rules! elem_f32x3 {
    ($t:ty, $tag:expr, $name:literal, |$c:ident| [$a0:expr, $a1:expr, $a2:expr], |$a:ident| $mk:expr) => {
        impl Elem for $t {
            const TAG: u8 = $tag;
            const NAME: &'static str = $name;
            #[inline]
            fn to_words(&self) -> Words {
                let $c = self;
                [($a0 as f32).to_bits() as u64, ($a1 as f32).to_bits() as u64, ($a2 as f32).to_bits() as u64, 0]
            }
            #[inline]
            fn from_words(w: Words) -> Self {
                let $a = [f32::from_bits(w[0] as u32), f32::from_bits(w[1] as u32), f32::from_bits(w[2] as u32)];
                $mk
            }
        }
    };
}

macro_rules! elem_f64x3 {
    ($t:ty, $tag:expr, $name:literal, |$c:ident| [$a0:expr, $a1:expr, $a2:expr], |$a:ident| $mk:expr) => {
        impl Elem for $t {
            const TAG: u8 = $tag;
            const NAME: &'static str = $name;
            #[inline]
            fn to_words(&self) -> Words {
                let $c = self;
                [($a0 as f64).to_bits(), ($a1 as f64).to_bits(), ($a2 as f64).to_bits(), 0]
            }
            #[inline]
            fn from_words(w: Words) -> Self {
                let $a = [f64::from_bits(w[0]), f64::from_bits(w[1]), f64::from_bits(w[2])];
                $mk
            }
        }
    };
}

macro_rules! elem_f64x4 {
    ($t:ty, $tag:expr, $name:literal, |$c:ident| [$a0:expr, $a1:expr, $a2:expr, $a3:expr], |$a:ident| $mk:expr) => {
        impl Elem for $t {
            const TAG: u8 = $tag;
            const NAME: &'static str = $name;
            #[inline]
            fn to_words(&self) -> Words {
                let $c = self;
                [($a0 as f64).to_bits(), ($a1 as f64).to_bits(), ($a2 as f64).to_bits(), ($a3 as f64).to_bits()]
            }
            #[inline]
            fn from_words(w: Words) -> Self {
                let $a = [f64::from_bits(w[0]), f64::from_bits(w[1]), f64::from_bits(w[2]), f64::from_bits(w[3])];
                $mk
            }
        }
    };
}

macro_rules! elem_f32x4 {
    ($t:ty, $tag:expr, $name:literal, |$c:ident| [$a0:expr, $a1:expr, $a2:expr, $a3:expr], |$a:ident| $mk:expr) => {
        impl Elem for $t {
            const TAG: u8 = $tag;
            const NAME: &'static str = $name;
            #[inline]
            fn to_words(&self) -> Words {
                let $c = self;
                [
                    ($a0 as f32).to_bits() as u64,
                    ($a1 as f32).to_bits() as u64,
                    ($a2 as f32).to_bits() as u64,
                    ($a3 as f32).to_bits() as u64,
                ]
            }
            #[inline]
            fn from_words(w: Words) -> Self {
                let $a = [
                    f32::from_bits(w[0] as u32),
                    f32::from_bits(w[1] as u32),
                    f32::from_bits(w[2] as u32),
                    f32::from_bits(w[3] as u32),
                ];
                $mk
            }
        }
    };
}

macro_rules! elem_f32x1 {
    ($t:ty, $tag:expr, $name:literal, |$c:ident| [$a0:expr], |$a:ident| $mk:expr) => {
        impl Elem for $t {
            const TAG: u8 = $tag;
            const NAME: &'static str = $name;
            #[inline]
            fn to_words(&self) -> Words {
                let $c = self;
                [($a0 as f32).to_bits() as u64, 0, 0, 0]
            }
            #[inline]
            fn from_words(w: Words) -> Self {
                let $a = [f32::from_bits(w[0] as u32)];
                $mk
            }
        }
    };
}

macro_rules! elem_f32x2 {
    ($t:ty, $tag:expr, $name:literal, |$c:ident| [$a0:expr, $a1:expr], |$a:ident| $mk:expr) => {
        impl Elem for $t {
            const TAG: u8 = $tag;
            const NAME: &'static str = $name;
            #[inline]
            fn to_words(&self) -> Words {
                let $c = self;
                [($a0 as f32).to_bits() as u64, ($a1 as f32).to_bits() as u64, 0, 0]
            }
            #[inline]
            fn from_words(w: Words) -> Self {
                let $a = [f32::from_bits(w[0] as u32), f32::from_bits(w[1] as u32)];
                $mk
            }
        }
    };
}

// ---- family A: [f32; 3]
pub type ASrgb = Srgb<f32>;
pub type AHsv = Hsv<palette::encoding::Srgb, f32>;
pub type AHsl = Hsl<palette::encoding::Srgb, f32>;
pub type AHwb = Hwb<palette::encoding::Srgb, f32>;
pub type ALab = Lab<D65, f32>;
pub type ALch = Lch<D65, f32>;
pub type AXyz = Xyz<D65, f32>;

elem_f32x3!(ASrgb, 0, "Srgb", |c| [c.red, c.green, c.blue], |a| Srgb::new(a[0], a[1], a[2]));
elem_f32x3!(AHsv, 1, "Hsv", |c| [c.hue.into_raw_degrees(), c.saturation, c.value], |a| Hsv::new(a[0], a[1], a[2]));
elem_f32x3!(AHsl, 2, "Hsl", |c| [c.hue.into_raw_degrees(), c.saturation, c.lightness], |a| Hsl::new(a[0], a[1], a[2]));
elem_f32x3!(AHwb, 3, "Hwb", |c| [c.hue.into_raw_degrees(), c.whiteness, c.blackness], |a| Hwb::new(a[0], a[1], a[2]));
elem_f32x3!(ALab, 4, "Lab", |c| [c.l, c.a, c.b], |a| Lab::new(a[0], a[1], a[2]));
elem_f32x3!(ALch, 5, "Lch", |c| [c.l, c.chroma, c.hue.into_raw_degrees()], |a| Lch::new(a[0], a[1], a[2]));
elem_f32x3!(AXyz, 6, "Xyz", |c| [c.x, c.y, c.z], |a| Xyz::new(a[0], a[1], a[2]));

// ---- family B: [f64; 3], around a linear RGB root (the RGB-derived hue types only
// convert to the RGB standard they are parameterised with, so LinSrgb cannot share a
// fully connected family with Hsv<Srgb>)
pub type BSrgb = Srgb<f64>;
pub type BLin = LinSrgb<f64>;
pub type BXyz = Xyz<D65, f64>;
pub type BLab = Lab<D65, f64>;
pub type BLch = Lch<D65, f64>;

elem_f64x3!(BSrgb, 0, "Srgb<f64>", |c| [c.red, c.green, c.blue], |a| Srgb::new(a[0], a[1], a[2]));
elem_f64x3!(BLin, 1, "LinSrgb<f64>", |c| [c.red, c.green, c.blue], |a| LinSrgb::new(a[0], a[1], a[2]));
elem_f64x3!(BXyz, 2, "Xyz<f64>", |c| [c.x, c.y, c.z], |a| Xyz::new(a[0], a[1], a[2]));
elem_f64x3!(BLab, 3, "Lab<f64>", |c| [c.l, c.a, c.b], |a| Lab::new(a[0], a[1], a[2]));
elem_f64x3!(BLch, 4, "Lch<f64>", |c| [c.l, c.chroma, c.hue.into_raw_degrees()], |a| Lch::new(a[0], a[1], a[2]));

// ---- family C: [f32; 4]
pub type CSrgba = Alpha<ASrgb, f32>;
pub type CHwba = Alpha<AHwb, f32>;
pub type CHsva = Alpha<AHsv, f32>;
pub type CHsla = Alpha<AHsl, f32>;
pub type CLaba = Alpha<ALab, f32>;

elem_f32x4!(CSrgba, 0, "Srgba", |c| [c.red, c.green, c.blue, c.alpha], |a| Alpha { color: Srgb::new(a[0], a[1], a[2]), alpha: a[3] });
elem_f32x4!(CHwba, 1, "Hwba", |c| [c.hue.into_raw_degrees(), c.whiteness, c.blackness, c.alpha], |a| Alpha { color: Hwb::new(a[0], a[1], a[2]), alpha: a[3] });
elem_f32x4!(CHsva, 2, "Hsva", |c| [c.hue.into_raw_degrees(), c.saturation, c.value, c.alpha], |a| Alpha { color: Hsv::new(a[0], a[1], a[2]), alpha: a[3] });
elem_f32x4!(CHsla, 3, "Hsla", |c| [c.hue.into_raw_degrees(), c.saturation, c.lightness, c.alpha], |a| Alpha { color: Hsl::new(a[0], a[1], a[2]), alpha: a[3] });
elem_f32x4!(CLaba, 4, "Laba", |c| [c.l, c.a, c.b, c.alpha], |a| Alpha { color: Lab::new(a[0], a[1], a[2]), alpha: a[3] });

// ---- family D: [f32; 1] (the one-component array casts) and family E: [f32; 2]
pub type DLuma = SrgbLuma<f32>;
pub type DLin = LinLuma<D65, f32>;
pub type ELumaa = Alpha<DLuma, f32>;
pub type ELina = Alpha<DLin, f32>;

elem_f32x1!(DLuma, 0, "SrgbLuma", |c| [c.luma], |a| SrgbLuma::new(a[0]));
elem_f32x1!(DLin, 1, "LinLuma", |c| [c.luma], |a| LinLuma::new(a[0]));
elem_f32x2!(ELumaa, 0, "SrgbLumaa", |c| [c.luma, c.alpha], |a| Alpha { color: SrgbLuma::new(a[0]), alpha: a[1] });
elem_f32x2!(ELina, 1, "LinLumaa", |c| [c.luma, c.alpha], |a| Alpha { color: LinLuma::new(a[0]), alpha: a[1] });

// ---- family F: [f64; 4], the Alpha wrappers of family B's non-hue members (f64 components and f64 alpha)
pub type FSrgba = Alpha<BSrgb, f64>;
pub type FLina = Alpha<BLin, f64>;
pub type FXyza = Alpha<BXyz, f64>;
pub type FLaba = Alpha<BLab, f64>;

elem_f64x4!(FSrgba, 0, "Srgba<f64>", |c| [c.red, c.green, c.blue, c.alpha], |a| Alpha { color: Srgb::new(a[0], a[1], a[2]), alpha: a[3] });
elem_f64x4!(FLina, 1, "LinSrgba<f64>", |c| [c.red, c.green, c.blue, c.alpha], |a| Alpha { color: LinSrgb::new(a[0], a[1], a[2]), alpha: a[3] });
elem_f64x4!(FXyza, 2, "Xyza<f64>", |c| [c.x, c.y, c.z, c.alpha], |a| Alpha { color: Xyz::new(a[0], a[1], a[2]), alpha: a[3] });
elem_f64x4!(FLaba, 3, "Laba<f64>", |c| [c.l, c.a, c.b, c.alpha], |a| Alpha { color: Lab::new(a[0], a[1], a[2]), alpha: a[3] });

// ---- family G: [f32; 3] again, the Oklab-based types (their own conversion code: the Okhsv / Okhsl gamut
// machinery, and a hue type of their own)
pub type GOklab = Oklab<f32>;
pub type GOklch = Oklch<f32>;
pub type GOkhsv = Okhsv<f32>;
pub type GOkhsl = Okhsl<f32>;

elem_f32x3!(GOklab, 0, "Oklab", |c| [c.l, c.a, c.b], |a| Oklab::new(a[0], a[1], a[2]));
elem_f32x3!(GOklch, 1, "Oklch", |c| [c.l, c.chroma, c.hue.into_raw_degrees()], |a| Oklch::new(a[0], a[1], a[2]));
elem_f32x3!(GOkhsv, 2, "Okhsv", |c| [c.hue.into_raw_degrees(), c.saturation, c.value], |a| Okhsv::new(a[0], a[1], a[2]));
elem_f32x3!(GOkhsl, 3, "Okhsl", |c| [c.hue.into_raw_degrees(), c.saturation, c.lightness], |a| Okhsl::new(a[0], a[1], a[2]));

/// `$body` is expanded once with `$C` bound to the family member whose tag is `$tag`.
macro_rules! dispatch {
    ($tag:expr, [$($c:ident),+], |$C:ident| $body:expr) => {{
        let tag: u8 = $tag;
        let mut done = false;
        $(
            if !done && tag == <$c as Elem>::TAG {
                done = true;
                type $C = $c;
                $body
            }
        )+
        if !done {
            panic!("palsim: unknown type tag {}", tag);
        }
    }};
}

/// Interpreter node for slices: current `[T]`, original `[U]`, both modes.
macro_rules! impl_node {
    ($t:ident, $u:ident, $all:tt) => {
        impl_node!(@mode $t, $u, $all, Clamped, FromColorMutGuard);
        impl_node!(@mode $t, $u, $all, Unclamped, FromColorUnclampedMutGuard);
    };
    (@mode $t:ident, $u:ident, [$($c:ident),+], $mode:ident, $guard:ident) => {
        impl<'a> Node<'a> for P<$t, $u, $mode> {
            type G = $guard<'a, [$t], [$u]>;

            fn run(mut g: Self::G, ex: &mut Exec<'_, '_>, body: &[Op], end: End) {
                let mut i = 0;
                while i < body.len() {
                    if ex.failed() {
                        return;
                    }
                    ex.step(body[i].kind(), <$t as Elem>::NAME);
                    match &body[i] {
                        Op::Read => {
                            let view: &[$t] = &g;
                            ex.observe(view.as_ptr() as usize, view.len(), &mut view.iter().map(|c| c.to_words()));
                        }
                        Op::Write { idx, words } => {
                            let n = { let view: &[$t] = &g; view.len() };
                            if n > 0 {
                                let k = *idx as usize % n;
                                // write through DerefMut, element assignment
                                { let view: &mut [$t] = &mut g; view[k] = <$t as Elem>::from_words(*words); }
                                ex.model_write(k, <$t as Elem>::from_words(*words).to_words());
                            }
                            let view: &[$t] = &g;
                            ex.observe(view.as_ptr() as usize, view.len(), &mut view.iter().map(|c| c.to_words()));
                        }
                        Op::Mutate { scale_bits, add_bits } => {
                            // an operator applied through the guard to every element
                            let view: &mut [$t] = &mut g;
                            for (k, c) in view.iter_mut().enumerate() {
                                // computed from what the MODEL holds, not from what the buffer shows: a value the
                                // guard got wrong must not be laundered into the model by the next mutation
                                let w = super::mutate_words(ex.model_word(k), ex.layout, *scale_bits, *add_bits);
                                *c = <$t as Elem>::from_words(w);
                                ex.model_write(k, c.to_words());
                            }
                            let view: &[$t] = &g;
                            ex.observe(view.as_ptr() as usize, view.len(), &mut view.iter().map(|c| c.to_words()));
                        }
                        Op::ThenInto { ty, unclamped } => {
                            ex.model_then(*ty, *unclamped);
                            let rest = &body[i + 1..];
                            dispatch!(*ty, [$($c),+], |C| {
                                if *unclamped {
                                    let ng = g.then_into_color_unclamped_mut::<[C]>();
                                    ex.observe_guard::<C>(&ng);
                                    return <P<C, $u, Unclamped> as Node>::run(ng, ex, rest, end);
                                } else {
                                    let ng = g.then_into_color_mut::<[C]>();
                                    ex.observe_guard::<C>(&ng);
                                    return <P<C, $u, Clamped> as Node>::run(ng, ex, rest, end);
                                }
                            });
                            unreachable!();
                        }
                        Op::SwitchMode => {
                            ex.model_switch();
                            let rest = &body[i + 1..];
                            return impl_node!(@switch $t, $u, $mode, g, ex, rest, end);
                        }
                        Op::Nest { ty, unclamped, entry, body: nb, end: ne } => {
                            ex.model_open(<$t as Elem>::TAG, *ty, *unclamped);
                            dispatch!(*ty, [$($c),+], |C| {
                                let outer: &mut [$t] = &mut g;
                                if *unclamped {
                                    let inner = match entry {
                                        Entry::From => <[C] as FromColorUnclampedMut<[$t]>>::from_color_unclamped_mut(outer),
                                        Entry::Into => IntoColorUnclampedMut::<[C]>::into_color_unclamped_mut(outer),
                                    };
                                    ex.observe_guard::<C>(&inner);
                                    <P<C, $t, Unclamped> as Node>::run(inner, ex, nb, *ne);
                                } else {
                                    let inner = match entry {
                                        Entry::From => <[C] as FromColorMut<[$t]>>::from_color_mut(outer),
                                        Entry::Into => IntoColorMut::<[C]>::into_color_mut(outer),
                                    };
                                    ex.observe_guard::<C>(&inner);
                                    <P<C, $t, Clamped> as Node>::run(inner, ex, nb, *ne);
                                }
                            });
                            if ex.failed() {
                                return;
                            }
                            let view: &[$t] = &g;
                            ex.observe(view.as_ptr() as usize, view.len(), &mut view.iter().map(|c| c.to_words()));
                        }
                    }
                    i += 1;
                }
                if ex.failed() {
                    return;
                }
                match end {
                    End::Drop => {
                        drop(g);
                        ex.model_close(true, "drop");
                    }
                    End::Restore => {
                        let r: &mut [$u] = g.restore();
                        ex.model_close(true, "restore");
                        ex.observe(r.as_ptr() as usize, r.len(), &mut r.iter().map(|c| c.to_words()));
                    }
                    End::Forget => {
                        core::mem::forget(g);
                        ex.model_close(false, "forget");
                    }
                    End::Unwind => {
                        // crash fault: a panic in caller code while this guard and every
                        // guard outside it are alive; Drop runs during unwinding
                        ex.note_unwind();
                        let _keep_alive = &g;
                        inject_panic(13);
                    }
                }
            }
        }
    };
    (@switch $t:ident, $u:ident, Clamped, $g:ident, $ex:ident, $rest:ident, $end:ident) => {
        <P<$t, $u, Unclamped> as Node>::run($g.into_unclamped_guard(), $ex, $rest, $end)
    };
    (@switch $t:ident, $u:ident, Unclamped, $g:ident, $ex:ident, $rest:ident, $end:ident) => {
        <P<$t, $u, Clamped> as Node>::run($g.into_clamped_guard(), $ex, $rest, $end)
    };
}

/// Interpreter node for single values: current `T`, original `U`.
macro_rules! impl_single {
    ($t:ident, $u:ident, $all:tt) => {
        impl_single!(@mode $t, $u, $all, Clamped, FromColorMutGuard);
        impl_single!(@mode $t, $u, $all, Unclamped, FromColorUnclampedMutGuard);
    };
    (@mode $t:ident, $u:ident, [$($c:ident),+], $mode:ident, $guard:ident) => {
        impl<'a> SingleNode<'a> for P<$t, $u, $mode> {
            type G = $guard<'a, $t, $u>;

            fn run(mut g: Self::G, ex: &mut Exec<'_, '_>, body: &[Op], end: End) {
                let mut i = 0;
                while i < body.len() {
                    if ex.failed() {
                        return;
                    }
                    ex.step(body[i].kind(), <$t as Elem>::NAME);
                    match &body[i] {
                        Op::Read => {
                            let view: &$t = &g;
                            ex.observe(view as *const $t as usize, 1, &mut core::iter::once(view.to_words()));
                        }
                        Op::Write { words, .. } => {
                            *g = <$t as Elem>::from_words(*words);
                            ex.model_write(0, <$t as Elem>::from_words(*words).to_words());
                            let view: &$t = &g;
                            ex.observe(view as *const $t as usize, 1, &mut core::iter::once(view.to_words()));
                        }
                        Op::Mutate { scale_bits, add_bits } => {
                            let w = super::mutate_words(ex.model_word(0), ex.layout, *scale_bits, *add_bits);
                            *g = <$t as Elem>::from_words(w);
                            ex.model_write(0, g.to_words());
                            let view: &$t = &g;
                            ex.observe(view as *const $t as usize, 1, &mut core::iter::once(view.to_words()));
                        }
                        Op::ThenInto { ty, unclamped } => {
                            ex.model_then(*ty, *unclamped);
                            let rest = &body[i + 1..];
                            dispatch!(*ty, [$($c),+], |C| {
                                if *unclamped {
                                    let ng = g.then_into_color_unclamped_mut::<C>();
                                    { let view: &C = &ng; ex.observe(view as *const C as usize, 1, &mut core::iter::once(view.to_words())); }
                                    return <P<C, $u, Unclamped> as SingleNode>::run(ng, ex, rest, end);
                                } else {
                                    let ng = g.then_into_color_mut::<C>();
                                    { let view: &C = &ng; ex.observe(view as *const C as usize, 1, &mut core::iter::once(view.to_words())); }
                                    return <P<C, $u, Clamped> as SingleNode>::run(ng, ex, rest, end);
                                }
                            });
                            unreachable!();
                        }
                        Op::SwitchMode => {
                            ex.model_switch();
                            let rest = &body[i + 1..];
                            return impl_single!(@switch $t, $u, $mode, g, ex, rest, end);
                        }
                        Op::Nest { ty, unclamped, entry, body: nb, end: ne } => {
                            ex.model_open(<$t as Elem>::TAG, *ty, *unclamped);
                            dispatch!(*ty, [$($c),+], |C| {
                                let outer: &mut $t = &mut g;
                                if *unclamped {
                                    let inner = match entry {
                                        Entry::From => <C as FromColorUnclampedMut<$t>>::from_color_unclamped_mut(outer),
                                        Entry::Into => IntoColorUnclampedMut::<C>::into_color_unclamped_mut(outer),
                                    };
                                    { let view: &C = &inner; ex.observe(view as *const C as usize, 1, &mut core::iter::once(view.to_words())); }
                                    <P<C, $t, Unclamped> as SingleNode>::run(inner, ex, nb, *ne);
                                } else {
                                    let inner = match entry {
                                        Entry::From => <C as FromColorMut<$t>>::from_color_mut(outer),
                                        Entry::Into => IntoColorMut::<C>::into_color_mut(outer),
                                    };
                                    { let view: &C = &inner; ex.observe(view as *const C as usize, 1, &mut core::iter::once(view.to_words())); }
                                    <P<C, $t, Clamped> as SingleNode>::run(inner, ex, nb, *ne);
                                }
                            });
                            if ex.failed() {
                                return;
                            }
                            let view: &$t = &g;
                            ex.observe(view as *const $t as usize, 1, &mut core::iter::once(view.to_words()));
                        }
                    }
                    i += 1;
                }
                if ex.failed() {
                    return;
                }
                match end {
                    End::Drop => {
                        drop(g);
                        ex.model_close(true, "drop");
                    }
                    End::Restore => {
                        let r: &mut $u = g.restore();
                        ex.model_close(true, "restore");
                        ex.observe(r as *const $u as usize, 1, &mut core::iter::once(r.to_words()));
                    }
                    End::Forget => {
                        core::mem::forget(g);
                        ex.model_close(false, "forget");
                    }
                    End::Unwind => {
                        ex.note_unwind();
                        let _keep_alive = &g;
                        inject_panic(13);
                    }
                }
            }
        }
    };
    (@switch $t:ident, $u:ident, Clamped, $g:ident, $ex:ident, $rest:ident, $end:ident) => {
        <P<$t, $u, Unclamped> as SingleNode>::run($g.into_unclamped_guard(), $ex, $rest, $end)
    };
    (@switch $t:ident, $u:ident, Unclamped, $g:ident, $ex:ident, $rest:ident, $end:ident) => {
        <P<$t, $u, Clamped> as SingleNode>::run($g.into_clamped_guard(), $ex, $rest, $end)
    };
}

/// Cartesian products by peeling: `$all` is passed along as one token tree.
macro_rules! for_pairs {
    ($mac:ident, [$($t:ident),+], $all:tt) => {
        $( for_pairs!(@u $mac, $t, $all, $all); )+
    };
    (@u $mac:ident, $t:ident, [$($u:ident),+], $all:tt) => {
        $( $mac!($t, $u, $all); )+
    };
}

/// The reference model's conversion table: ordinary by-value conversions.
macro_rules! convert_table {
    ($name:ident, [$($t:ident),+]) => {
        pub fn $name(from: u8, to: u8, unclamped: bool, w: Words) -> Words {
            convert_table!(@from from, to, unclamped, w, [$($t),+], [$($t),+])
        }
    };
    (@from $from:ident, $to:ident, $un:ident, $w:ident, [$($f:ident),+], $all:tt) => {{
        $(
            if $from == <$f as Elem>::TAG {
                return convert_table!(@to $f, $to, $un, $w, $all);
            }
        )+
        panic!("palsim: unknown type tag {}", $from)
    }};
    (@to $f:ident, $to:ident, $un:ident, $w:ident, [$($t:ident),+]) => {{
        let src = <$f as Elem>::from_words($w);
        $(
            if $to == <$t as Elem>::TAG {
                let out: $t = if $un { <$t as FromColorUnclamped<$f>>::from_color_unclamped(src) } else { <$t as FromColor<$f>>::from_color(src) };
                return out.to_words();
            }
        )+
        panic!("palsim: unknown type tag {}", $to)
    }};
}

for_pairs!(impl_node, [ASrgb, AHsv, AHsl, AHwb, ALab, ALch, AXyz], [ASrgb, AHsv, AHsl, AHwb, ALab, ALch, AXyz]);
for_pairs!(impl_node, [BSrgb, BLin, BXyz, BLab, BLch], [BSrgb, BLin, BXyz, BLab, BLch]);
for_pairs!(impl_node, [CSrgba, CHwba, CHsva, CHsla, CLaba], [CSrgba, CHwba, CHsva, CHsla, CLaba]);
for_pairs!(impl_node, [DLuma, DLin], [DLuma, DLin]);
for_pairs!(impl_node, [ELumaa, ELina], [ELumaa, ELina]);
for_pairs!(impl_node, [FSrgba, FLina, FXyza, FLaba], [FSrgba, FLina, FXyza, FLaba]);
for_pairs!(impl_node, [GOklab, GOklch, GOkhsv, GOkhsl], [GOklab, GOklch, GOkhsv, GOkhsl]);
for_pairs!(impl_single, [DLuma, DLin], [DLuma, DLin]);
for_pairs!(impl_single, [ELumaa, ELina], [ELumaa, ELina]);
for_pairs!(impl_single, [BSrgb, BLin, BXyz, BLab, BLch], [BSrgb, BLin, BXyz, BLab, BLch]);
for_pairs!(impl_single, [CSrgba, CHwba, CHsva, CHsla, CLaba], [CSrgba, CHwba, CHsva, CHsla, CLaba]);
for_pairs!(impl_single, [FSrgba, FLina, FXyza, FLaba], [FSrgba, FLina, FXyza, FLaba]);
for_pairs!(impl_single, [GOklab, GOklch, GOkhsv, GOkhsl], [GOklab, GOklch, GOkhsv, GOkhsl]);

convert_table!(convert_a, [ASrgb, AHsv, AHsl, AHwb, ALab, ALch, AXyz]);
convert_table!(convert_b, [BSrgb, BLin, BXyz, BLab, BLch]);
convert_table!(convert_c, [CSrgba, CHwba, CHsva, CHsla, CLaba]);
convert_table!(convert_d, [DLuma, DLin]);
convert_table!(convert_e, [ELumaa, ELina]);
convert_table!(convert_f, [FSrgba, FLina, FXyza, FLaba]);
convert_table!(convert_g, [GOklab, GOklch, GOkhsv, GOkhsl]);

pub const FAMILY_A: [&str; 7] = ["Srgb", "Hsv", "Hsl", "Hwb", "Lab", "Lch", "Xyz"];
pub const FAMILY_B: [&str; 5] = ["Srgb<f64>", "LinSrgb<f64>", "Xyz<f64>", "Lab<f64>", "Lch<f64>"];
pub const FAMILY_C: [&str; 5] = ["Srgba", "Hwba", "Hsva", "Hsla", "Laba"];
pub const FAMILY_D: [&str; 2] = ["SrgbLuma", "LinLuma"];
pub const FAMILY_E: [&str; 2] = ["SrgbLumaa", "LinLumaa"];
pub const FAMILY_F: [&str; 4] = ["Srgba<f64>", "LinSrgba<f64>", "Xyza<f64>", "Laba<f64>"];
pub const FAMILY_G: [&str; 4] = ["Oklab", "Oklch", "Okhsv", "Okhsl"];

// ------------------------------------------------------------------ roots

/// The buffer between episodes: a vector of the family member named by its tag.
macro_rules! buf_enum {
    ($name:ident, $open:ident, $open_single:ident, $vecconv:ident, $readout:ident, $make:ident, single: $single:tt, [$($t:ident),+], $all:tt) => {
        pub enum $name {
            $($t(Vec<$t>),)+
        }

        impl $name {
            pub fn tag(&self) -> u8 {
                match self { $($name::$t(_) => <$t as Elem>::TAG,)+ }
            }
            pub fn len(&self) -> usize {
                match self { $($name::$t(v) => v.len(),)+ }
            }
            pub fn addr_len_cap(&self) -> (usize, usize, usize) {
                match self { $($name::$t(v) => (v.as_ptr() as usize, v.len(), v.capacity()),)+ }
            }
            /// Canary: fill the spare capacity behind the last element with a byte pattern ...
            pub fn canary_fill(&mut self) {
                match self { $($name::$t(v) => {
                    let spare = v.spare_capacity_mut();
                    let n = core::mem::size_of_val(spare);
                    // Safety: spare capacity is allocated, uninitialised memory owned by the vector; bytes may be written
                    unsafe { core::ptr::write_bytes(spare.as_mut_ptr() as *mut u8, 0xA5, n) };
                },)+ }
            }
            /// ... and check that nothing wrote past the end of the buffer (number of clobbered bytes).
            pub fn canary_damage(&mut self) -> usize {
                match self { $($name::$t(v) => {
                    let spare = v.spare_capacity_mut();
                    let n = core::mem::size_of_val(spare);
                    // Safety: every byte of the spare capacity was initialised by `canary_fill` (or by a stray write)
                    let bytes = unsafe { core::slice::from_raw_parts(spare.as_ptr() as *const u8, n) };
                    bytes.iter().filter(|b| **b != 0xA5).count()
                },)+ }
            }
        }

        pub fn $make(tag: u8, words: &[Words], extra_cap: usize) -> $name {
            let mut out: Option<$name> = None;
            $(
                if tag == <$t as Elem>::TAG {
                    let mut v: Vec<$t> = Vec::with_capacity(words.len() + extra_cap);
                    v.extend(words.iter().map(|w| <$t as Elem>::from_words(*w)));
                    out = Some($name::$t(v));
                }
            )+
            out.expect("palsim: unknown type tag")
        }

        pub fn $readout(buf: &$name) -> Vec<Words> {
            match buf { $($name::$t(v) => v.iter().map(|c| c.to_words()).collect(),)+ }
        }

        /// Open the root guard of an episode on the buffer and interpret the body.
        pub fn $open(buf: &mut $name, range: (usize, usize), ex: &mut Exec<'_, '_>, ty: u8, unclamped: bool, entry: Entry, body: &[Op], end: End) {
            match buf {
                $(
                    $name::$t(v) => {
                        type U = $t;
                        dispatch!(ty, $all, |C| {
                            if unclamped {
                                let g = match entry {
                                    Entry::From => <[C] as FromColorUnclampedMut<[U]>>::from_color_unclamped_mut(&mut v[range.0..range.1]),
                                    Entry::Into => IntoColorUnclampedMut::<[C]>::into_color_unclamped_mut(&mut v[range.0..range.1]),
                                };
                                ex.observe_guard::<C>(&g);
                                <P<C, U, Unclamped> as Node>::run(g, ex, body, end);
                            } else {
                                let g = match entry {
                                    Entry::From => <[C] as FromColorMut<[U]>>::from_color_mut(&mut v[range.0..range.1]),
                                    Entry::Into => IntoColorMut::<[C]>::into_color_mut(&mut v[range.0..range.1]),
                                };
                                ex.observe_guard::<C>(&g);
                                <P<C, U, Clamped> as Node>::run(g, ex, body, end);
                            }
                        });
                    }
                )+
            }
        }

        /// Open a guard on one element (single-value in-place conversion).
        pub fn $open_single(buf: &mut $name, ex: &mut Exec<'_, '_>, idx: usize, ty: u8, unclamped: bool, entry: Entry, body: &[Op], end: End) {
            buf_enum!(@single $single, $name, buf, ex, idx, ty, unclamped, entry, body, end, [$($t),+], $all);
        }

        /// By-value conversion of the owning container, which palette performs in place.
        pub fn $vecconv(buf: $name, ty: u8, unclamped: bool, how: super::Owned) -> ($name, (usize, usize, usize), (usize, usize, usize)) {
            match buf {
                $(
                    $name::$t(v) => {
                        type U = $t;
                        let mut result: Option<($name, (usize, usize, usize), (usize, usize, usize))> = None;
                        let mut v = Some(v);
                        dispatch!(ty, $all, |C| {
                            let v = v.take().unwrap();
                            let out: Vec<C>;
                            let before;
                            let after;
                            match how {
                                super::Owned::Vec => {
                                    before = (v.as_ptr() as usize, v.len(), v.capacity());
                                    out = if unclamped {
                                        <Vec<C> as FromColorUnclamped<Vec<U>>>::from_color_unclamped(v)
                                    } else {
                                        <Vec<C> as FromColor<Vec<U>>>::from_color(v)
                                    };
                                    after = (out.as_ptr() as usize, out.len(), out.capacity());
                                }
                                super::Owned::MapVec => {
                                    before = (v.as_ptr() as usize, v.len(), v.capacity());
                                    out = if unclamped {
                                        palette::cast::map_vec_in_place(v, |c: U| <C as FromColorUnclamped<U>>::from_color_unclamped(c))
                                    } else {
                                        palette::cast::map_vec_in_place(v, |c: U| <C as FromColor<U>>::from_color(c))
                                    };
                                    after = (out.as_ptr() as usize, out.len(), out.capacity());
                                }
                                super::Owned::Boxed => {
                                    let b: Box<[U]> = v.into_boxed_slice();
                                    before = (b.as_ptr() as usize, b.len(), b.len());
                                    let ob: Box<[C]> = if unclamped {
                                        <Box<[C]> as FromColorUnclamped<Box<[U]>>>::from_color_unclamped(b)
                                    } else {
                                        <Box<[C]> as FromColor<Box<[U]>>>::from_color(b)
                                    };
                                    after = (ob.as_ptr() as usize, ob.len(), ob.len());
                                    out = ob.into_vec();
                                }
                                super::Owned::VecInto => {
                                    before = (v.as_ptr() as usize, v.len(), v.capacity());
                                    out = if unclamped {
                                        IntoColorUnclamped::<Vec<C>>::into_color_unclamped(v)
                                    } else {
                                        IntoColor::<Vec<C>>::into_color(v)
                                    };
                                    after = (out.as_ptr() as usize, out.len(), out.capacity());
                                }
                                super::Owned::BoxedInto => {
                                    let b: Box<[U]> = v.into_boxed_slice();
                                    before = (b.as_ptr() as usize, b.len(), b.len());
                                    let ob: Box<[C]> = if unclamped {
                                        IntoColorUnclamped::<Box<[C]>>::into_color_unclamped(b)
                                    } else {
                                        IntoColor::<Box<[C]>>::into_color(b)
                                    };
                                    after = (ob.as_ptr() as usize, ob.len(), ob.len());
                                    out = ob.into_vec();
                                }
                                super::Owned::MapBox => {
                                    let b: Box<[U]> = v.into_boxed_slice();
                                    before = (b.as_ptr() as usize, b.len(), b.len());
                                    let ob: Box<[C]> = if unclamped {
                                        palette::cast::map_slice_box_in_place(b, |c: U| <C as FromColorUnclamped<U>>::from_color_unclamped(c))
                                    } else {
                                        palette::cast::map_slice_box_in_place(b, |c: U| <C as FromColor<U>>::from_color(c))
                                    };
                                    after = (ob.as_ptr() as usize, ob.len(), ob.len());
                                    out = ob.into_vec();
                                }
                            }
                            result = Some(($make(<C as Elem>::TAG, &[], 0).replace_with(out), before, after));
                        });
                        result.expect("dispatch ran")
                    }
                )+
            }
        }
    };
    (@single yes, $name:ident, $buf:ident, $ex:ident, $idx:ident, $ty:ident, $unclamped:ident, $entry:ident, $body:ident, $end:ident, [$($t:ident),+], $all:tt) => {
        match $buf {
            $(
                $name::$t(v) => {
                    type U = $t;
                    let slot: &mut U = &mut v[$idx];
                    dispatch!($ty, $all, |C| {
                        if $unclamped {
                            let g = match $entry {
                                Entry::From => <C as FromColorUnclampedMut<U>>::from_color_unclamped_mut(slot),
                                Entry::Into => IntoColorUnclampedMut::<C>::into_color_unclamped_mut(slot),
                            };
                            { let view: &C = &g; $ex.observe(view as *const C as usize, 1, &mut core::iter::once(view.to_words())); }
                            <P<C, U, Unclamped> as SingleNode>::run(g, $ex, $body, $end);
                        } else {
                            let g = match $entry {
                                Entry::From => <C as FromColorMut<U>>::from_color_mut(slot),
                                Entry::Into => IntoColorMut::<C>::into_color_mut(slot),
                            };
                            { let view: &C = &g; $ex.observe(view as *const C as usize, 1, &mut core::iter::once(view.to_words())); }
                            <P<C, U, Clamped> as SingleNode>::run(g, $ex, $body, $end);
                        }
                    });
                }
            )+
        }
    };
    (@single no, $name:ident, $buf:ident, $ex:ident, $idx:ident, $ty:ident, $unclamped:ident, $entry:ident, $body:ident, $end:ident, [$($t:ident),+], $all:tt) => {
        let _ = ($buf, $ex, $idx, $ty, $unclamped, $entry, $body, $end);
        unreachable!("single-value guards are not instantiated for this family");
    };
}

/// Helper so that `vecconv` can build the enum variant for the output type
/// without another dispatch: `make(tag, &[], 0)` creates the right (empty)
/// variant, `replace_with` swaps in the converted vector.
pub trait ReplaceWith<V> {
    fn replace_with(self, v: V) -> Self;
}

macro_rules! replace_with_impl {
    ($name:ident, [$($t:ident),+]) => {
        $(
            impl ReplaceWith<Vec<$t>> for $name {
                fn replace_with(self, v: Vec<$t>) -> Self {
                    $name::$t(v)
                }
            }
        )+
    };
}

buf_enum!(BufA, open_a, open_single_a, vecconv_a, readout_a, make_a, single: no, [ASrgb, AHsv, AHsl, AHwb, ALab, ALch, AXyz], [ASrgb, AHsv, AHsl, AHwb, ALab, ALch, AXyz]);
buf_enum!(BufB, open_b, open_single_b, vecconv_b, readout_b, make_b, single: yes, [BSrgb, BLin, BXyz, BLab, BLch], [BSrgb, BLin, BXyz, BLab, BLch]);
buf_enum!(BufC, open_c, open_single_c, vecconv_c, readout_c, make_c, single: yes, [CSrgba, CHwba, CHsva, CHsla, CLaba], [CSrgba, CHwba, CHsva, CHsla, CLaba]);
buf_enum!(BufD, open_d, open_single_d, vecconv_d, readout_d, make_d, single: yes, [DLuma, DLin], [DLuma, DLin]);
buf_enum!(BufE, open_e, open_single_e, vecconv_e, readout_e, make_e, single: yes, [ELumaa, ELina], [ELumaa, ELina]);
buf_enum!(BufF, open_f, open_single_f, vecconv_f, readout_f, make_f, single: yes, [FSrgba, FLina, FXyza, FLaba], [FSrgba, FLina, FXyza, FLaba]);
buf_enum!(BufG, open_g, open_single_g, vecconv_g, readout_g, make_g, single: yes, [GOklab, GOklch, GOkhsv, GOkhsl], [GOklab, GOklch, GOkhsv, GOkhsl]);
replace_with_impl!(BufD, [DLuma, DLin]);
replace_with_impl!(BufE, [ELumaa, ELina]);
replace_with_impl!(BufA, [ASrgb, AHsv, AHsl, AHwb, ALab, ALch, AXyz]);
replace_with_impl!(BufB, [BSrgb, BLin, BXyz, BLab, BLch]);
replace_with_impl!(BufC, [CSrgba, CHwba, CHsva, CHsla, CLaba]);
replace_with_impl!(BufF, [FSrgba, FLina, FXyza, FLaba]);
replace_with_impl!(BufG, [GOklab, GOklch, GOkhsv, GOkhsl]);
