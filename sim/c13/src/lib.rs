#![allow(unreachable_code, unused_assignments, unused_variables, unused_mut, clippy::all)]
//! C13 — in-place conversion equals out-of-place conversion; guards restore on drop.
//!
//! World A (seeded search): histories of guard operations on a buffer of real
//! palette colors, bit-compared after every step with a model that is built
//! from the ordinary by-value conversions only. Faults: `forget` (leak),
//! early end of life, and `unwind` — a panic in caller code while a chain of
//! guards is alive, so that every `Drop` runs during unwinding.
//!
//! World B (enumerated): a panic on the k-th element conversion inside every
//! in-place entry point, for every k and every length 0..=6, on probe color
//! types with drop-tracking heap-owning components. Only ownership is judged
//! after such a crash (the documentation leaves the values unspecified).

pub mod family;
pub mod probe;

use simcore::core::{catch, shrink_list, Caught, Ctx, Tier, World, WorldInfo};
use simcore::ev;
use simcore::rng::Rng;
use family::Words;
use serde::{Deserialize, Serialize};

#[derive(Clone, Copy, Debug, Serialize, Deserialize, Hash, PartialEq, Eq)]
pub enum Layout {
    /// `[f32; 3]`
    A,
    /// `[f64; 3]`
    B,
    /// `[f32; 4]`
    C,
    /// `[f32; 1]`
    D,
    /// `[f32; 2]`
    E,
    /// `[f64; 4]`
    F,
    /// `[f32; 3]` again: the Oklab-based types
    G,
}

impl Layout {
    fn names(self) -> &'static [&'static str] {
        match self {
            Layout::A => &family::FAMILY_A,
            Layout::B => &family::FAMILY_B,
            Layout::C => &family::FAMILY_C,
            Layout::D => &family::FAMILY_D,
            Layout::E => &family::FAMILY_E,
            Layout::F => &family::FAMILY_F,
            Layout::G => &family::FAMILY_G,
        }
    }
    fn k(self) -> u8 {
        self.names().len() as u8
    }
    fn ncomp(self) -> usize {
        match self {
            Layout::C | Layout::F => 4,
            Layout::D => 1,
            Layout::E => 2,
            _ => 3,
        }
    }
    fn elem_size(self) -> usize {
        match self {
            Layout::A => 12,
            Layout::B => 24,
            Layout::C => 16,
            Layout::D => 4,
            Layout::E => 8,
            Layout::F => 32,
            Layout::G => 12,
        }
    }
    /// the component words are `f64` bits (otherwise `f32` bits, widened)
    fn is_f64(self) -> bool {
        matches!(self, Layout::B | Layout::F)
    }
    fn has_single(self) -> bool {
        !matches!(self, Layout::A)
    }
    const ALL: [Layout; 7] = [Layout::A, Layout::B, Layout::C, Layout::D, Layout::E, Layout::F, Layout::G];
    /// name of the per-layout plan counter (`extra_counters` in the evidence)
    fn plans_counter(self) -> &'static str {
        match self {
            Layout::A => "world-A-plans:[f32;3]",
            Layout::B => "world-A-plans:[f64;3]",
            Layout::C => "world-A-plans:[f32;4]",
            Layout::D => "world-A-plans:[f32;1]",
            Layout::E => "world-A-plans:[f32;2]",
            Layout::F => "world-A-plans:[f64;4]",
            Layout::G => "world-A-plans:[f32;3] Ok",
        }
    }
    fn name(self) -> &'static str {
        match self {
            Layout::A => "[f32;3]",
            Layout::B => "[f64;3]",
            Layout::C => "[f32;4]",
            Layout::D => "[f32;1]",
            Layout::E => "[f32;2]",
            Layout::F => "[f64;4]",
            Layout::G => "[f32;3] Ok",
        }
    }
}

#[derive(Clone, Copy, Debug, Serialize, Deserialize, Hash, PartialEq, Eq)]
pub enum End {
    Drop,
    Restore,
    Forget,
    Unwind,
}

#[derive(Clone, Copy, Debug, Serialize, Deserialize, Hash, PartialEq, Eq)]
pub enum Entry {
    /// `<[T]>::from_color_mut(&mut buf)` / `from_color_unclamped_mut`
    From,
    /// `buf.into_color_mut()` / `into_color_unclamped_mut`
    Into,
}

#[derive(Clone, Copy, Debug, Serialize, Deserialize, Hash, PartialEq, Eq)]
pub enum Owned {
    /// `Vec::<T>::from_color(vec)`
    Vec,
    /// `Box::<[T]>::from_color(boxed)`
    Boxed,
    /// `cast::map_vec_in_place(vec, T::from_color)`
    MapVec,
    /// `cast::map_slice_box_in_place(boxed, T::from_color)`
    MapBox,
    /// `vec.into_color()` / `into_color_unclamped()` (the blanket `IntoColor` impls)
    VecInto,
    /// `boxed.into_color()` / `into_color_unclamped()`
    BoxedInto,
}

#[derive(Clone, Debug, Serialize, Deserialize, Hash, PartialEq, Eq)]
pub enum Op {
    Read,
    Write { idx: u16, words: Words },
    Mutate { scale_bits: u64, add_bits: u64 },
    ThenInto { ty: u8, unclamped: bool },
    SwitchMode,
    Nest { ty: u8, unclamped: bool, entry: Entry, body: Vec<Op>, end: End },
}

impl Op {
    pub fn kind(&self) -> &'static str {
        match self {
            Op::Read => "read",
            Op::Write { .. } => "write",
            Op::Mutate { .. } => "mutate",
            Op::ThenInto { unclamped: false, .. } => "then_into_color_mut",
            Op::ThenInto { unclamped: true, .. } => "then_into_color_unclamped_mut",
            Op::SwitchMode => "switch_mode",
            Op::Nest { .. } => "nest",
        }
    }
}

#[derive(Clone, Debug, Serialize, Deserialize, Hash, PartialEq, Eq)]
pub enum Episode {
    /// `range = Some((a, b))`: the guard is opened on a sub-slice of the buffer (resolved against the current
    /// length); the elements in front of it and behind it are live neighbours that must not change
    Guard {
        ty: u8,
        unclamped: bool,
        entry: Entry,
        body: Vec<Op>,
        end: End,
        #[serde(default)]
        range: Option<(u16, u16)>,
    },
    Single { idx: u16, ty: u8, unclamped: bool, entry: Entry, body: Vec<Op>, end: End },
    Owned { ty: u8, unclamped: bool, how: Owned },
}

#[derive(Clone, Debug, Serialize, Deserialize, Hash, PartialEq, Eq)]
pub enum Plan {
    Guards {
        layout: Layout,
        orig: u8,
        /// component bit patterns (f32 bits widened, or f64 bits), one array per color
        buf: Vec<Words>,
        extra_cap: u8,
        episodes: Vec<Episode>,
    },
    Crash(probe::CrashPlan),
}

/// Bitwise equality of component words, except that any NaN equals any NaN: the
/// sign and payload bits of a NaN produced by arithmetic are unspecified in Rust
/// (they may differ between two evaluations of the same expression), so they are
/// not part of "the same values". Out-of-range inputs do reach NaN (e.g. a
/// negative base under `powf` in `Xyz -> Srgb`).
pub fn same_words(layout: Layout, a: &Words, b: &Words) -> bool {
    for j in 0..layout.ncomp() {
        if a[j] == b[j] {
            continue;
        }
        // any NaN equals any NaN (unspecified bits), and +0 equals -0 (the same value; which zero a
        // `max(x, 0.0)` returns depends on the argument order, not on anything the property promises)
        let same_value = match layout.is_f64() {
            true => {
                let (x, y) = (f64::from_bits(a[j]), f64::from_bits(b[j]));
                (x.is_nan() && y.is_nan()) || (x == 0.0 && y == 0.0)
            }
            false => {
                let (x, y) = (f32::from_bits(a[j] as u32), f32::from_bits(b[j] as u32));
                (x.is_nan() && y.is_nan()) || (x == 0.0 && y == 0.0)
            }
        };
        if !same_value {
            return false;
        }
    }
    true
}

pub fn same_buffers(layout: Layout, a: &[Words], b: &[Words]) -> bool {
    a.len() == b.len() && a.iter().zip(b.iter()).all(|(x, y)| same_words(layout, x, y))
}

/// An operator applied through the guard: `x * scale + add` on every component.
pub fn mutate_words(w: Words, layout: Layout, scale_bits: u64, add_bits: u64) -> Words {
    let mut out = w;
    match layout.is_f64() {
        true => {
            let (s, a) = (f64::from_bits(scale_bits), f64::from_bits(add_bits));
            for x in out.iter_mut().take(layout.ncomp()) {
                *x = (f64::from_bits(*x) * s + a).to_bits();
            }
        }
        false => {
            let (s, a) = (f64::from_bits(scale_bits) as f32, f64::from_bits(add_bits) as f32);
            for x in out.iter_mut().take(layout.ncomp()) {
                *x = (f32::from_bits(*x as u32) * s + a).to_bits() as u64;
            }
        }
    }
    out
}

pub fn convert_words(layout: Layout, from: u8, to: u8, unclamped: bool, w: Words) -> Words {
    match layout {
        Layout::A => family::convert_a(from, to, unclamped, w),
        Layout::B => family::convert_b(from, to, unclamped, w),
        Layout::C => family::convert_c(from, to, unclamped, w),
        Layout::D => family::convert_d(from, to, unclamped, w),
        Layout::E => family::convert_e(from, to, unclamped, w),
        Layout::F => family::convert_f(from, to, unclamped, w),
        Layout::G => family::convert_g(from, to, unclamped, w),
    }
}

// ------------------------------------------------------------------ reference model + observation

#[derive(Clone, Copy, Debug)]
struct Frame {
    orig: u8,
    cur: u8,
    unclamped: bool,
}

pub struct Exec<'c, 'a> {
    pub ctx: &'c mut Ctx<'a>,
    pub layout: Layout,
    words: Vec<Words>,
    frames: Vec<Frame>,
    base: usize,
    len: usize,
    max_live: usize,
    /// running digest of every word observed through a typed view (goes into the event log)
    obs: simcore::rng::Fnv,
    obs_count: u64,
    /// the by-value conversion itself panicked on a value of this plan (see `convert`)
    out_of_domain: std::cell::Cell<bool>,
}

impl<'c, 'a> Exec<'c, 'a> {
    /// One by-value conversion of the reference model. If the ORDINARY conversion itself panics on this value
    /// (the generated colors reach far outside the nominal ranges; a conversion may grow an assertion), the
    /// in-place conversion will panic just the same and the property has nothing to say: the plan is marked
    /// out of domain, nothing is compared any more and a panic of the guard operation is not a violation.
    fn convert(&self, from: u8, to: u8, unclamped: bool, w: Words) -> Words {
        let layout = self.layout;
        match catch(|| convert_words(layout, from, to, unclamped, w)) {
            Caught::Ok(out) => out,
            _ => {
                self.out_of_domain.set(true);
                w
            }
        }
    }

    pub fn failed(&self) -> bool {
        self.ctx.failed()
    }

    pub fn step(&mut self, kind: &'static str, cur: &'static str) {
        self.ctx.step();
        self.ctx.cell(cur, kind);
        let depth = self.frames.len();
        self.ctx.state(&(self.layout, depth, kind, self.frames.last().map(|f| (f.cur, f.orig, f.unclamped))));
    }

    fn convert_all(&mut self, from: u8, to: u8, unclamped: bool) {
        for i in 0..self.words.len() {
            self.words[i] = self.convert(from, to, unclamped, self.words[i]);
        }
    }

    pub fn model_open(&mut self, from: u8, to: u8, unclamped: bool) {
        self.convert_all(from, to, unclamped);
        self.frames.push(Frame { orig: from, cur: to, unclamped });
        self.max_live = self.max_live.max(self.frames.len());
        if self.frames.len() >= 4 {
            self.ctx.probe("nest-depth-4");
        }
        self.ctx.changed();
        let n = self.layout.names();
        ev!(self.ctx, "open {} -> {} {} depth={}", n[from as usize], n[to as usize], if unclamped { "unclamped" } else { "clamped" }, self.frames.len());
    }

    pub fn model_then(&mut self, to: u8, unclamped: bool) {
        let f = *self.frames.last().expect("then_into without a live guard");
        self.convert_all(f.cur, to, unclamped);
        let top = self.frames.last_mut().unwrap();
        top.cur = to;
        top.unclamped = unclamped;
        self.ctx.changed();
        self.ctx.probe(if unclamped { "consumed-by-then_into_color_unclamped_mut" } else { "consumed-by-then_into_color_mut" });
        let n = self.layout.names();
        ev!(self.ctx, "then_into {} {} (original {})", n[to as usize], if unclamped { "unclamped" } else { "clamped" }, n[f.orig as usize]);
    }

    pub fn model_switch(&mut self) {
        let top = self.frames.last_mut().expect("switch_mode without a live guard");
        top.unclamped = !top.unclamped;
        let now = top.unclamped;
        self.ctx.probe(if now { "consumed-by-into_unclamped_guard" } else { "consumed-by-into_clamped_guard" });
        ev!(self.ctx, "switch_mode -> {}", if now { "unclamped" } else { "clamped" });
    }

    pub fn model_close(&mut self, restore: bool, how: &'static str) {
        let f = self.frames.pop().expect("close without a live guard");
        if restore {
            // exactly one conversion step, current type -> original type, in the guard's mode
            let before = self.words.clone();
            self.convert_all(f.cur, f.orig, f.unclamped);
            if !f.unclamped && before.iter().zip(self.words.iter()).any(|(b, a)| {
                // the clamped restore differs from the unclamped one: it really clamped something
                self.convert(f.cur, f.orig, true, *b) != *a
            }) {
                self.ctx.probe("clamped-restore-clamped-something");
            }
        } else {
            self.ctx.fired("leak");
            if !self.frames.is_empty() {
                self.ctx.probe("inner-guard-forgotten-outer-restores");
            }
        }
        if how == "restore" {
            self.ctx.probe("consumed-by-restore");
        }
        self.ctx.changed();
        let n = self.layout.names();
        ev!(self.ctx, "{how} {} -> {} depth={} observed={} digest={:016x}", n[f.cur as usize], n[f.orig as usize], self.frames.len(), self.obs_count, self.obs.finish());
    }

    /// What the model says element `k` holds right now.
    pub fn model_word(&self, k: usize) -> Words {
        self.words[k]
    }

    pub fn model_write(&mut self, k: usize, w: Words) {
        self.words[k] = w;
        self.ctx.changed();
    }

    pub fn note_unwind(&mut self) {
        self.ctx.fired("unwind@guard");
        if self.frames.len() >= 2 {
            self.ctx.probe("unwind-with->=2-live-guards");
        }
        ev!(self.ctx, "unwind with {} live guards", self.frames.len());
    }

    /// After the panic was caught outside the outermost guard: every live
    /// guard was dropped by the unwinding, innermost first.
    fn model_unwind(&mut self) {
        while !self.frames.is_empty() {
            self.model_close(true, "unwound");
        }
    }

    pub fn observe_guard<C: family::Elem>(&mut self, view: &[C]) {
        self.observe(view.as_ptr() as usize, view.len(), &mut view.iter().map(|c| c.to_words()));
    }

    /// Oracle: same address and length as the original buffer, and contents
    /// bit-identical to the model.
    pub fn observe(&mut self, addr: usize, len: usize, items: &mut dyn Iterator<Item = Words>) {
        if self.failed() || self.out_of_domain.get() {
            return;
        }
        self.ctx.checked();
        let cur = self.frames.last().map(|f| f.cur);
        let tname = cur.map(|c| self.layout.names()[c as usize]).unwrap_or("<original>");
        // an empty view has no memory to reuse: its address means nothing (a refactor may hand out `&mut []`),
        // only its length is compared
        if len != self.len || (len > 0 && addr != self.base) {
            self.ctx.fail(
                "memory-reuse",
                &format!("memory-reuse:{}", self.layout.name()),
                format!(
                    "the view as {tname} has offset {} and length {len}, the original buffer has length {}",
                    addr as i64 - self.base as i64,
                    self.len
                ),
            );
            return;
        }
        for (i, w) in items.enumerate() {
            for (j, x) in w.iter().enumerate() {
                // NaNs are digested as one value (their bits are unspecified)
                let nan = j < self.layout.ncomp()
                    && match self.layout.is_f64() {
                        true => f64::from_bits(*x).is_nan(),
                        false => f32::from_bits(*x as u32).is_nan(),
                    };
                self.obs.u64(if nan { u64::MAX } else { *x });
            }
            self.obs_count += 1;
            if !same_words(self.layout, &w, &self.words[i]) {
                let ncomp = self.layout.ncomp();
                let show = |w: &Words| -> String {
                    match self.layout.is_f64() {
                        true => format!("{:?}", w[..ncomp].iter().map(|x| f64::from_bits(*x)).collect::<Vec<_>>()),
                        false => format!("{:?}", w[..ncomp].iter().map(|x| f32::from_bits(*x as u32)).collect::<Vec<_>>()),
                    }
                };
                let detail = format!(
                    "element {i} seen as {tname} is {} but the by-value model says {} (live guards: {})",
                    show(&w),
                    show(&self.words[i]),
                    self.frames.len()
                );
                self.ctx.fail("in-place-vs-by-value", &format!("in-place-vs-by-value:{}", self.layout.name()), detail);
                return;
            }
        }
    }
}

// ------------------------------------------------------------------ the world

pub struct C13;

impl C13 {
    pub fn new() -> Self {
        C13
    }
}

fn gen_component(rng: &mut Rng) -> f64 {
    match rng.below(16) {
        0 => 0.0,
        1 => 1.0,
        2 => 0.5,
        3 => 100.0,
        4 => 360.0,
        5 => -1.0 + 3.0 * rng.unit_f64(),         // out of range for unit components
        6 => -128.0 + 255.0 * rng.unit_f64(),     // Lab a/b
        7 | 8 => 360.0 * rng.unit_f64(),          // hue-like
        9 => -400.0 + 1200.0 * rng.unit_f64(),    // far out of range
        10 => 100.0 * rng.unit_f64(),             // lightness-like
        // in range, but where a shortcut keyed on `== 0.0` or on the exponent goes wrong: negative zero, a value that is
        // subnormal in f32, the smallest normal f64
        11 => *rng.pick(&[-0.0f64, 1.0e-40, f64::MIN_POSITIVE, 1.0 - f64::EPSILON, 1.0 + 2.0 * f32::EPSILON as f64]),
        _ => rng.unit_f64(),
    }
}

fn gen_words(rng: &mut Rng, layout: Layout) -> Words {
    let mut w = [0u64; 4];
    for x in w.iter_mut().take(layout.ncomp()) {
        let v = gen_component(rng);
        *x = match layout.is_f64() {
            true => v.to_bits(),
            false => (v as f32).to_bits() as u64,
        };
    }
    w
}

fn gen_end(rng: &mut Rng, faults: bool) -> End {
    if faults {
        match rng.below(10) {
            0..=3 => End::Drop,
            4..=5 => End::Restore,
            6..=7 => End::Forget,
            _ => End::Unwind,
        }
    } else if rng.chance(2, 3) {
        End::Drop
    } else {
        End::Restore
    }
}

fn gen_body(rng: &mut Rng, layout: Layout, depth: usize, budget: &mut i32, faults: bool) -> Vec<Op> {
    gen_body_d(rng, layout, depth, budget, faults, 4)
}

fn gen_body_d(rng: &mut Rng, layout: Layout, depth: usize, budget: &mut i32, faults: bool, max_depth: usize) -> Vec<Op> {
    let n = match rng.below(8) {
        0 => 0,
        1..=5 => 1 + rng.below(4),
        _ => 3 + rng.below(8),
    } as usize;
    let mut body = Vec::new();
    for _ in 0..n {
        if *budget <= 0 {
            break;
        }
        *budget -= 1;
        let op = match rng.below(20) {
            0..=3 => Op::Read,
            4..=8 => Op::Write { idx: rng.below(64) as u16, words: gen_words(rng, layout) },
            9..=10 => {
                let scale = *rng.pick(&[1.0f64, 0.5, 2.0, -1.0, 0.25]);
                let add = *rng.pick(&[0.0f64, 0.25, -0.125, 60.0, 1.0]);
                Op::Mutate { scale_bits: scale.to_bits(), add_bits: add.to_bits() }
            }
            11..=14 => Op::ThenInto { ty: rng.below(layout.k() as u64) as u8, unclamped: rng.chance(1, 3) },
            15..=16 => Op::SwitchMode,
            _ => {
                if depth < max_depth {
                    let ty = rng.below(layout.k() as u64) as u8;
                    let unclamped = rng.chance(1, 3);
                    let entry = if rng.chance(1, 2) { Entry::From } else { Entry::Into };
                    let nb = gen_body_d(rng, layout, depth + 1, budget, faults, max_depth);
                    Op::Nest { ty, unclamped, entry, body: nb, end: gen_end(rng, faults) }
                } else {
                    Op::Read
                }
            }
        };
        body.push(op);
    }
    body
}

impl World for C13 {
    type Plan = Plan;

    fn id(&self) -> &'static str {
        "C13"
    }

    /// World B: every crash point in every in-place entry point, lengths 0..=6.
    fn enumerated(&self, _tier: Tier) -> u64 {
        probe::enumerate().len() as u64
    }

    fn random_runs(&self, tier: Tier) -> u64 {
        match tier {
            Tier::Quick => 3_000_000,
            Tier::Thorough => 60_000_000,
        }
    }

    fn plan(&self, index: u64, rng: &mut Rng, tier: Tier) -> Plan {
        let crashes = probe::enumerate();
        if index < self.enumerated(tier) {
            return Plan::Crash(crashes[index as usize].clone());
        }
        // the modulus stays coprime to the `index % 4` (deep) and `index % 50` (big) strata below, so that every
        // layout gets its deep and its big plans; A keeps a little under half (5 in 11, it was 3 in 7)
        let layout = match index % 11 {
            0..=4 => Layout::A,
            5 => Layout::B,
            6 => Layout::C,
            7 => Layout::D,
            8 => Layout::E,
            9 => Layout::F,
            _ => Layout::G,
        };
        // the thorough tier spends a quarter of its plans beyond the quick tier's bounds:
        // buffers up to 96 colors, 90 guard operations, guard chains up to 6 deep
        let deep = tier == Tier::Thorough && index % 4 == 1;
        let len = match rng.below(12) {
            0 => 0,
            1 | 2 => 1,
            3..=8 => 2 + rng.below(5),
            _ if deep => 7 + rng.below(90),
            _ => 7 + rng.below(18),
        } as usize;
        // One plan in fifty gets a buffer around the sizes a chunked or vectorised in-place loop would use
        // (in-place conversion is a performance feature; a "fast path" is the likeliest refactor), with a short
        // history so that the run stays cheap.
        let big = !deep && index % 50 == 7;
        let len = if big {
            let base = *rng.pick(&[32usize, 64, 128, 256, 1024, 4096]);
            if base == 4096 { base + rng.below(40) as usize } else { base - 1 + rng.below(3) as usize }
        } else {
            len
        };
        let mut buf: Vec<Words> = (0..len).map(|_| gen_words(rng, layout)).collect();
        // Neighbours that repeat, or that are equal under `PartialEq` without being the same value (a zero of the
        // other sign, a hue whole turns away): whatever a per-element loop carries from one element to the next
        // (a remembered result, a run-length fast path) shows only there, and independent draws never produce it.
        if len >= 2 && rng.chance(1, 6) {
            let is_f64 = layout.is_f64();
            let get = |w: u64| if is_f64 { f64::from_bits(w) } else { f32::from_bits(w as u32) as f64 };
            let put = |v: f64| if is_f64 { v.to_bits() } else { (v as f32).to_bits() as u64 };
            for i in 1..len.min(128) {
                if !rng.chance(1, 2) {
                    continue;
                }
                let mut w = buf[i - 1];
                match rng.below(4) {
                    0 => {}
                    1 => {
                        // zeros change sign; where there is none, one component becomes a zero of either sign
                        let mut any = false;
                        for x in w.iter_mut().take(layout.ncomp()) {
                            if get(*x) == 0.0 {
                                *x = put(-get(*x));
                                any = true;
                            }
                        }
                        if !any {
                            let j = rng.below(layout.ncomp() as u64) as usize;
                            w[j] = put(if rng.chance(1, 2) { -0.0 } else { 0.0 });
                        }
                    }
                    _ => {
                        // whole turns on one component: the same hue where that component is a hue
                        let j = rng.below(layout.ncomp() as u64) as usize;
                        let turns = *rng.pick(&[-720.0, -360.0, 360.0, 720.0]);
                        w[j] = put(get(w[j]) + turns);
                    }
                }
                buf[i] = w;
            }
        }
        let faults = rng.chance(6, 10);
        let n_eps = if big { 1 } else { 1 + rng.below(3) as usize };
        let mut budget = if deep { 90i32 } else if big { 3i32 } else { 40i32 };
        let max_depth = if deep { 6 } else { 4 };
        let mut episodes = Vec::new();
        for _ in 0..n_eps {
            let ty = rng.below(layout.k() as u64) as u8;
            let unclamped = rng.chance(1, 3);
            let entry = if rng.chance(1, 2) { Entry::From } else { Entry::Into };
            let e = match rng.below(10) {
                0..=6 => Episode::Guard {
                    ty,
                    unclamped,
                    entry,
                    body: gen_body_d(rng, layout, 1, &mut budget, faults, max_depth),
                    end: gen_end(rng, faults),
                    range: if rng.chance(1, 4) { Some((rng.below(64) as u16, rng.below(64) as u16)) } else { None },
                },
                7 if layout.has_single() && len > 0 => Episode::Single {
                    idx: rng.below(64) as u16,
                    ty,
                    unclamped,
                    entry,
                    body: gen_body_d(rng, layout, 1, &mut budget, faults, max_depth),
                    end: gen_end(rng, faults),
                },
                _ => Episode::Owned {
                    ty,
                    unclamped,
                    how: *rng.pick(&[Owned::Vec, Owned::Boxed, Owned::MapVec, Owned::MapBox, Owned::VecInto, Owned::BoxedInto]),
                },
            };
            episodes.push(e);
        }
        Plan::Guards { layout, orig: rng.below(layout.k() as u64) as u8, buf, extra_cap: rng.below(6) as u8, episodes }
    }

    fn execute(&self, plan: &Plan, ctx: &mut Ctx<'_>) {
        match plan {
            Plan::Crash(c) => probe::execute(c, ctx),
            Plan::Guards { layout, orig, buf, extra_cap, episodes } => match layout {
                Layout::A => exec_a(*orig, buf, *extra_cap, episodes, ctx),
                Layout::B => exec_b(*orig, buf, *extra_cap, episodes, ctx),
                Layout::C => exec_c(*orig, buf, *extra_cap, episodes, ctx),
                Layout::D => exec_d(*orig, buf, *extra_cap, episodes, ctx),
                Layout::E => exec_e(*orig, buf, *extra_cap, episodes, ctx),
                Layout::F => exec_f(*orig, buf, *extra_cap, episodes, ctx),
                Layout::G => exec_g(*orig, buf, *extra_cap, episodes, ctx),
            },
        }
    }

    fn shrink(&self, plan: &Plan) -> Vec<Plan> {
        let mut out = Vec::new();
        let Plan::Guards { layout, orig, buf, extra_cap, episodes } = plan else {
            return out;
        };
        let mk = |buf: Vec<Words>, episodes: Vec<Episode>| Plan::Guards { layout: *layout, orig: *orig, buf, extra_cap: *extra_cap, episodes };
        for eps in shrink_list(episodes) {
            if !eps.is_empty() {
                out.push(mk(buf.clone(), eps));
            }
        }
        for b in shrink_list(buf).into_iter().take(24) {
            out.push(mk(b, episodes.clone()));
        }
        if *extra_cap > 0 {
            out.push(Plan::Guards { layout: *layout, orig: *orig, buf: buf.clone(), extra_cap: 0, episodes: episodes.clone() });
        }
        // simplify bodies
        for (ei, ep) in episodes.iter().enumerate() {
            let (body, rebuild): (&Vec<Op>, Box<dyn Fn(Vec<Op>, End) -> Episode>) = match ep {
                Episode::Guard { ty, unclamped, entry, body, end: _, range } => {
                    let (ty, unclamped, entry, range) = (*ty, *unclamped, *entry, *range);
                    (body, Box::new(move |b, e| Episode::Guard { ty, unclamped, entry, body: b, end: e, range }))
                }
                Episode::Single { idx, ty, unclamped, entry, body, end: _ } => {
                    let (idx, ty, unclamped, entry) = (*idx, *ty, *unclamped, *entry);
                    (body, Box::new(move |b, e| Episode::Single { idx, ty, unclamped, entry, body: b, end: e }))
                }
                Episode::Owned { .. } => continue,
            };
            let end = match ep {
                Episode::Guard { end, .. } | Episode::Single { end, .. } => *end,
                _ => End::Drop,
            };
            for b in shrink_bodies(body) {
                let mut eps = episodes.clone();
                eps[ei] = rebuild(b, end);
                out.push(mk(buf.clone(), eps));
            }
            if end != End::Drop {
                let mut eps = episodes.clone();
                eps[ei] = rebuild(body.clone(), End::Drop);
                out.push(mk(buf.clone(), eps));
            }
            if let Episode::Guard { ty, unclamped, entry, body, end, range: Some(_) } = ep {
                let mut eps = episodes.clone();
                eps[ei] = Episode::Guard { ty: *ty, unclamped: *unclamped, entry: *entry, body: body.clone(), end: *end, range: None };
                out.push(mk(buf.clone(), eps));
            }
        }
        // simpler colors
        for (i, w) in buf.iter().enumerate() {
            let simple = match layout {
                Layout::B => [0.5f64.to_bits(), 0.5f64.to_bits(), 0.5f64.to_bits(), 0],
                Layout::A => [0.5f32.to_bits() as u64, 0.5f32.to_bits() as u64, 0.5f32.to_bits() as u64, 0],
                Layout::C => [0.5f32.to_bits() as u64; 4],
                Layout::D => [0.5f32.to_bits() as u64, 0, 0, 0],
                Layout::E => [0.5f32.to_bits() as u64, 0.5f32.to_bits() as u64, 0, 0],
                Layout::F => [0.5f64.to_bits(); 4],
                Layout::G => [0.5f32.to_bits() as u64, 0.5f32.to_bits() as u64, 0.5f32.to_bits() as u64, 0],
            };
            if *w != simple && i < 8 {
                let mut b = buf.clone();
                b[i] = simple;
                out.push(mk(b, episodes.clone()));
            }
        }
        out
    }

    /// The (current type x operation) grid has more than 400 cells since the families F and G were added, and the
    /// driver leaves a grid of that size out of the evidence: it is written from here instead, together with a
    /// summary per layout family (the type names are unique across families).
    fn extra_evidence(&self, stats: &simcore::core::Stats) -> serde_json::Value {
        let mut grid = serde_json::Map::new();
        for ((a, b), n) in stats.grid.iter() {
            grid.insert(format!("{a} x {b}"), serde_json::json!(*n));
        }
        let mut fams = serde_json::Map::new();
        for layout in Layout::ALL {
            let cells: Vec<u64> = stats.grid.iter().filter(|((a, _), _)| layout.names().contains(a)).map(|(_, n)| *n).collect();
            fams.insert(
                layout.name().to_string(),
                serde_json::json!({
                    "types": layout.names(),
                    "plans": stats.extra.get(layout.plans_counter()).copied().unwrap_or(0),
                    "grid_cells": cells.len(),
                    "grid_min_hits": cells.iter().copied().min().unwrap_or(0),
                    "steps": cells.iter().sum::<u64>(),
                }),
            );
        }
        serde_json::json!({ "coverage_grid": grid, "coverage_by_family": fams })
    }

    fn info(&self) -> WorldInfo {
        WorldInfo {
            rule: "world A: plan = (layout family in {[f32;3] x 7 types, [f64;3] x 5, [f32;4] x 5 Alpha types, [f32;1] x 2 Luma types, [f32;2] x 2 Lumaa types, [f64;4] x 4 Alpha types, [f32;3] x 4 Oklab-based types}, original type, buffer of 0..24 colors \
                   with in-range, boundary and out-of-range components, <=3 episodes; an episode is a guard tree (open clamped|unclamped via \
                   from_color_mut|into_color_mut, then a body over {read, write, mutate, then_into_color_mut, then_into_color_unclamped_mut, \
                   into_unclamped_guard/into_clamped_guard, nest to depth 4}, ended by drop|restore|forget|unwind), a single-value guard tree, \
                   or an owned conversion (Vec/Box from_color(_unclamped), map_vec_in_place, map_slice_box_in_place)); world B: the enumerated \
                   front of the index space = every (entry point, length 0..=6, crash position k or none) on drop-tracking probe colors; \
                   distinct = distinct plan hash; non-trivial = at least one state-changing step and one comparison with the model",
            state_measure: "states = distinct (layout, live-guard depth, op kind, (current, original, mode) of the innermost guard) for world A and (entry point, length, crash position, outcome) for world B; transitions = distinct consecutive pairs",
            assumptions: vec![
                "the ordinary by-value conversions (from_color / from_color_unclamped) are the oracle: the property is 'in place = out of place'",
                "comparison is bitwise on the component words, read through the typed view's public fields",
                "after a panicking conversion only ownership is judged (no double drop, nothing dead reachable, caller-owned buffers fully live): the documentation leaves the values unspecified",
                "bounds: <= 24 colors, <= 40 guard ops per plan, guard chains <= 4 deep (thorough tier, a quarter of the plans: <= 96 colors, <= 90 ops, <= 6 deep); crash points exhaustive for lengths 0..=6 (three components) and 0..=3 (one, two, four components)",
            ],
            real: vec![
                "palette convert/from_into_color_mut.rs and from_into_color_unclamped_mut.rs (guards, Deref, DerefMut, then_into_*, into_*_guard, restore, Drop)",
                "palette convert/from_into_color.rs and from_into_color_unclamped.rs (Vec / Box<[T]> impls)",
                "palette cast/array.rs (map_vec_in_place, map_slice_box_in_place and the casts under them)",
                "the real conversions between the family's color types",
            ],
            stub: vec![
                "probe color types ProbeA/ProbeB with a countdown panic in their conversion (caller code)",
                "drop-tracking component type (caller data)",
                "the panicking caller scope (unwind fault)",
            ],
            expected_probes: vec![
                "consumed-by-then_into_color_mut",
                "consumed-by-then_into_color_unclamped_mut",
                "consumed-by-into_unclamped_guard",
                "consumed-by-into_clamped_guard",
                "consumed-by-restore",
                "nest-depth-4",
                "unwind-with->=2-live-guards",
                "inner-guard-forgotten-outer-restores",
                "zero-length-buffer",
                "clamped-restore-clamped-something",
                "owned-conversion-same-allocation",
                "crash-point-fired",
                "canary-behind-the-buffer-checked",
                "guard-on-a-sub-slice",
            ],
            expected_faults: vec!["unwind@guard", "leak", "unwind@convert(k)"],
            time_note: "palette has no clock; simulated time is reported as steps_executed",
        }
    }
}

fn shrink_bodies(body: &[Op]) -> Vec<Vec<Op>> {
    let mut out: Vec<Vec<Op>> = shrink_list(body).into_iter().take(40).collect();
    for (i, op) in body.iter().enumerate() {
        if let Op::Nest { ty, unclamped, entry, body: nb, end } = op {
            for b in shrink_bodies(nb).into_iter().take(12) {
                let mut v = body.to_vec();
                v[i] = Op::Nest { ty: *ty, unclamped: *unclamped, entry: *entry, body: b, end: *end };
                out.push(v);
            }
            if *end != End::Drop {
                let mut v = body.to_vec();
                v[i] = Op::Nest { ty: *ty, unclamped: *unclamped, entry: *entry, body: nb.clone(), end: End::Drop };
                out.push(v);
            }
            // replace the nest by its body
            let mut v = body[..i].to_vec();
            v.extend(nb.iter().cloned());
            v.extend(body[i + 1..].iter().cloned());
            out.push(v);
        }
    }
    out
}

macro_rules! exec_layout {
    ($fname:ident, $layout:expr, $make:path, $readout:path, $open:path, $open_single:path, $vecconv:path, $buf:ty) => {
        fn $fname(orig: u8, buf: &[Words], extra_cap: u8, episodes: &[Episode], ctx: &mut Ctx<'_>) {
            let layout: Layout = $layout;
            let mut owner: $buf = $make(orig, buf, extra_cap as usize);
            let names = layout.names();
            ctx.extra(layout.plans_counter(), 1);
            ev!(ctx, "layout={} original={} len={} capacity+{}", layout.name(), names[orig as usize], buf.len(), extra_cap);
            if buf.is_empty() {
                ctx.probe("zero-length-buffer");
            }
            // the model starts from what the typed buffer really holds
            let mut model_words = $readout(&owner);
            // canary behind the last element (the spare capacity): an in-place conversion must never write there
            owner.canary_fill();
            for (n, ep) in episodes.iter().enumerate() {
                if ctx.failed() {
                    return;
                }
                if n > 0 {
                    ctx.checked();
                    let damage = owner.canary_damage();
                    if damage > 0 {
                        ctx.fail(
                            "out-of-bounds-write",
                            &format!("out-of-bounds-write:{}", layout.name()),
                            format!("{damage} bytes of the spare capacity behind the buffer were overwritten during episode {}", n - 1),
                        );
                        return;
                    }
                }
                let (addr, len, _cap) = owner.addr_len_cap();
                let cur_tag = owner.tag();
                match ep {
                    Episode::Guard { ty, unclamped, entry, body, end, range } => {
                        // the part of the buffer the guard is opened on
                        let (ra, rb) = match range {
                            None => (0, len),
                            Some((x, y)) => {
                                let a = *x as usize % (len + 1);
                                let b = a + *y as usize % (len - a + 1);
                                (a, b)
                            }
                        };
                        if (ra, rb) != (0, len) {
                            ctx.probe("guard-on-a-sub-slice");
                        }
                        ev!(ctx, "episode {n}: guard on elements {ra}..{rb}");
                        let outside: (Vec<Words>, Vec<Words>) = (model_words[..ra].to_vec(), model_words[rb..].to_vec());
                        let mut ex = Exec { ctx: &mut *ctx, layout, words: model_words[ra..rb].to_vec(), frames: Vec::new(), base: addr + ra * layout.elem_size(), len: rb - ra, max_live: 0, obs: Default::default(), obs_count: 0, out_of_domain: Default::default() };
                        model_words.clear();
                        ex.model_open(cur_tag, *ty, *unclamped);
                        let r = catch(|| $open(&mut owner, (ra, rb), &mut ex, *ty, *unclamped, *entry, body, *end));
                        match r {
                            Caught::Ok(()) => {}
                            Caught::Injected(_) => ex.model_unwind(),
                            Caught::Foreign(_) if ex.out_of_domain.get() => {
                                ex.ctx.probe("plan-discarded:the-by-value-conversion-panics-too");
                                return;
                            }
                            Caught::Foreign(msg) => {
                                ex.ctx.fail("panic:guard", &format!("panic:guard:{}", layout.name()), format!("guard operation panicked: {msg}"));
                                return;
                            }
                        }
                        if ex.failed() {
                            return;
                        }
                        if ex.out_of_domain.get() {
                            ex.ctx.probe("plan-discarded:the-by-value-conversion-panics-too");
                            return;
                        }
                        if !ex.frames.is_empty() {
                            ex.ctx.fail("harness", "model-frames-left", format!("{} model frames left after the episode", ex.frames.len()));
                            return;
                        }
                        // the buffer is back in the caller's hands: same place, original type, model contents in the
                        // guarded part, and the neighbours in front of it and behind it untouched
                        let (a2, l2, _) = owner.addr_len_cap();
                        let inner = std::mem::take(&mut ex.words);
                        ex.base = addr;
                        ex.len = len;
                        ex.words = outside.0.iter().chain(inner.iter()).chain(outside.1.iter()).copied().collect();
                        let got = $readout(&owner);
                        ex.observe(a2, l2, &mut got.into_iter());
                        model_words = std::mem::take(&mut ex.words);
                    }
                    Episode::Single { idx, ty, unclamped, entry, body, end } => {
                        if len == 0 {
                            continue;
                        }
                        let k = *idx as usize % len;
                        ev!(ctx, "episode {n}: single-value guard on element {k}");
                        let mut ex = Exec {
                            ctx: &mut *ctx,
                            layout,
                            words: vec![model_words[k]],
                            frames: Vec::new(),
                            base: addr + k * layout.elem_size(),
                            len: 1,
                            max_live: 0,
                            obs: Default::default(),
                            obs_count: 0,
                            out_of_domain: Default::default(),
                        };
                        ex.model_open(cur_tag, *ty, *unclamped);
                        let r = catch(|| $open_single(&mut owner, &mut ex, k, *ty, *unclamped, *entry, body, *end));
                        match r {
                            Caught::Ok(()) => {}
                            Caught::Injected(_) => ex.model_unwind(),
                            Caught::Foreign(_) if ex.out_of_domain.get() => {
                                ex.ctx.probe("plan-discarded:the-by-value-conversion-panics-too");
                                return;
                            }
                            Caught::Foreign(msg) => {
                                ex.ctx.fail("panic:guard", &format!("panic:guard:{}", layout.name()), format!("single-value guard operation panicked: {msg}"));
                                return;
                            }
                        }
                        if ex.failed() {
                            return;
                        }
                        if ex.out_of_domain.get() {
                            ex.ctx.probe("plan-discarded:the-by-value-conversion-panics-too");
                            return;
                        }
                        model_words[k] = ex.words[0];
                        drop(ex);
                        // whole buffer: only element k may have changed
                        let got = $readout(&owner);
                        ctx.checked();
                        if !same_buffers(layout, &got, &model_words) {
                            ctx.fail(
                                "in-place-vs-by-value",
                                &format!("in-place-vs-by-value:{}", layout.name()),
                                format!("after a single-value guard on element {k} the buffer differs from the model"),
                            );
                            return;
                        }
                    }
                    Episode::Owned { ty, unclamped, how } => {
                        ev!(ctx, "episode {n}: owned {how:?} -> {} {}", names[*ty as usize], if *unclamped { "unclamped" } else { "clamped" });
                        ctx.step();
                        ctx.cell(names[*ty as usize], match how { Owned::Vec => "Vec::from_color", Owned::Boxed => "Box::from_color", Owned::MapVec => "map_vec_in_place", Owned::MapBox => "map_slice_box_in_place", Owned::VecInto => "Vec::into_color", Owned::BoxedInto => "Box::into_color" });
                        // the model first: if the by-value conversion panics on one of these values, so will the call
                        let mut model_after = model_words.clone();
                        let mut model_panicked = false;
                        for w in model_after.iter_mut() {
                            match catch(|| convert_words(layout, cur_tag, *ty, *unclamped, *w)) {
                                Caught::Ok(out) => *w = out,
                                _ => model_panicked = true,
                            }
                        }
                        if model_panicked {
                            ctx.probe("plan-discarded:the-by-value-conversion-panics-too");
                            return;
                        }
                        let taken = std::mem::replace(&mut owner, $make(0, &[], 0));
                        let r = catch(|| $vecconv(taken, *ty, *unclamped, *how));
                        let (new_owner, before, after) = match r {
                            Caught::Ok(x) => x,
                            Caught::Injected(_) => {
                                ctx.fail("harness", "unexpected-injected", "injected panic in an owned conversion".into());
                                return;
                            }
                            Caught::Foreign(msg) => {
                                ctx.fail("panic:owned", &format!("panic:owned:{}", layout.name()), format!("owned conversion panicked: {msg}"));
                                return;
                            }
                        };
                        owner = new_owner;
                        ctx.checked();
                        ctx.changed();
                        // same memory: same address, length and capacity
                        // a container without an allocation (capacity 0) has no address to keep
                        let same_memory = before.1 == after.1 && before.2 == after.2 && (before.2 == 0 || before.0 == after.0);
                        if !same_memory {
                            ctx.fail(
                                "memory-reuse",
                                &format!("memory-reuse:{}:{how:?}", layout.name()),
                                format!(
                                    "{how:?}: (address offset, length, capacity) changed from (0, {}, {}) to ({}, {}, {})",
                                    before.1, before.2, after.0 as i64 - before.0 as i64, after.1, after.2
                                ),
                            );
                            return;
                        }
                        ctx.probe("owned-conversion-same-allocation");
                        // element for element the ordinary conversion
                        model_words = model_after;
                        // the (possibly new) spare capacity gets a fresh canary: damage done BY this call was looked
                        // for at the top of the loop only if it hit the old one
                        ctx.checked();
                        if owner.addr_len_cap().2 == _cap {
                            let damage = owner.canary_damage();
                            if damage > 0 {
                                ctx.fail(
                                    "out-of-bounds-write",
                                    &format!("out-of-bounds-write:{}", layout.name()),
                                    format!("{damage} bytes of the spare capacity behind the buffer were overwritten by {how:?}"),
                                );
                                return;
                            }
                        }
                        owner.canary_fill();
                        let got = $readout(&owner);
                        if !same_buffers(layout, &got, &model_words) {
                            let i = got.iter().zip(model_words.iter()).position(|(a, b)| !same_words(layout, a, b)).unwrap_or(0);
                            ctx.fail(
                                "in-place-vs-by-value",
                                &format!("in-place-vs-by-value:{}:{how:?}", layout.name()),
                                format!("{how:?}: element {i} differs from the element-wise by-value conversion"),
                            );
                            return;
                        }
                    }
                }
            }
            if !ctx.failed() {
                ctx.checked();
                let damage = owner.canary_damage();
                if damage > 0 {
                    ctx.fail(
                        "out-of-bounds-write",
                        &format!("out-of-bounds-write:{}", layout.name()),
                        format!("{damage} bytes of the spare capacity behind the buffer were overwritten during the last episode"),
                    );
                    return;
                }
                if owner.addr_len_cap().2 > owner.len() {
                    ctx.probe("canary-behind-the-buffer-checked");
                }
            }
            ev!(ctx, "end: buffer is {} x {}", names[owner.tag() as usize], owner.len());
        }
    };
}

exec_layout!(exec_a, Layout::A, family::make_a, family::readout_a, family::open_a, family::open_single_a, family::vecconv_a, family::BufA);
exec_layout!(exec_b, Layout::B, family::make_b, family::readout_b, family::open_b, family::open_single_b, family::vecconv_b, family::BufB);
exec_layout!(exec_c, Layout::C, family::make_c, family::readout_c, family::open_c, family::open_single_c, family::vecconv_c, family::BufC);
exec_layout!(exec_d, Layout::D, family::make_d, family::readout_d, family::open_d, family::open_single_d, family::vecconv_d, family::BufD);
exec_layout!(exec_e, Layout::E, family::make_e, family::readout_e, family::open_e, family::open_single_e, family::vecconv_e, family::BufE);
exec_layout!(exec_f, Layout::F, family::make_f, family::readout_f, family::open_f, family::open_single_f, family::vecconv_f, family::BufF);
exec_layout!(exec_g, Layout::G, family::make_g, family::readout_g, family::open_g, family::open_single_g, family::vecconv_g, family::BufG);
