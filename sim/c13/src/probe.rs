//! World B of C13: crash points inside in-place maps.
//!
//! `ProbeA<T>` / `ProbeB<T>` are user-defined color types (as a caller of
//! palette could write them): `repr(C)`, three components, `ArrayCast`, with
//! hand-written conversions that count down and panic with the harness marker
//! on the k-th call. They are instantiated with `Tracked`, a
//! component whose every construction, clone and drop is recorded, so that a
//! double drop, a drop of something never constructed, or a dead value left
//! reachable in a buffer the caller still owns is visible.

use simcore::core::{catch, inject_panic, Caught, Ctx};
use simcore::ev;
use palette::cast::{self, ArrayCast};
use palette::convert::{FromColorMut, FromColorUnclamped, FromColorUnclampedMut};
use palette::bool_mask::HasBoolMask;
use palette::{Clamp, ClampAssign, FromColor, IsWithinBounds};
use serde::{Deserialize, Serialize};
use std::cell::RefCell;
use std::collections::BTreeSet;

// ------------------------------------------------------------------ tracking

#[derive(Default)]
struct Registry {
    next: u64,
    live: BTreeSet<u64>,
    errors: Vec<String>,
    constructed: u64,
    dropped: u64,
    countdown: Option<usize>,
    conversions: usize,
}

thread_local! {
    static REG: RefCell<Registry> = RefCell::new(Registry::default());
}

fn reg<R>(f: impl FnOnce(&mut Registry) -> R) -> R {
    REG.with(|r| f(&mut r.borrow_mut()))
}

/// The component does **not** own heap memory on purpose: a double drop must end up as a
/// recorded error of the registry (and so as a replayable violation), not as a
/// `free(): double free detected` abort of the simulator process. Under Miri the same
/// registry check runs, and the surrounding buffer (Vec / Box) is still real heap memory.
pub struct Tracked {
    id: u64,
    pub val: u32,
}

impl Tracked {
    pub fn new(val: u32) -> Self {
        let id = reg(|r| {
            r.next += 1;
            r.constructed += 1;
            let id = r.next;
            r.live.insert(id);
            id
        });
        Tracked { id, val }
    }
    fn id(&self) -> u64 {
        self.id
    }
}

impl PartialEq for Tracked {
    fn eq(&self, o: &Self) -> bool {
        self.val == o.val
    }
}

impl Clone for Tracked {
    fn clone(&self) -> Self {
        Tracked::new(self.val)
    }
}

impl Drop for Tracked {
    fn drop(&mut self) {
        let id = self.id;
        reg(|r| {
            r.dropped += 1;
            if !r.live.remove(&id) {
                r.errors.push(format!("component #{id} dropped although it is not live (double drop or drop of a value that was never constructed)"));
            }
        });
    }
}

/// Called by every probe conversion: panics (marker payload) on the planned call.
fn tick() {
    let fire = reg(|r| {
        r.conversions += 1;
        match r.countdown {
            Some(0) => {
                r.countdown = None;
                true
            }
            Some(n) => {
                r.countdown = Some(n - 1);
                false
            }
            None => false,
        }
    });
    if fire {
        inject_panic(14);
    }
}

// ------------------------------------------------------------------ probe colors

/// `N` components of one type, `repr(C)`: the layout `ArrayCast` asks for. `N` is a parameter because the
/// array casts under the in-place conversions are monomorphic per component count (1 = luma-like,
/// 2 = luma + alpha, 3, 4 = color + alpha).
#[repr(C)]
#[derive(Clone)]
pub struct ProbeA<T, const N: usize> {
    pub c: [T; N],
}

#[repr(C)]
#[derive(Clone)]
pub struct ProbeB<T, const N: usize> {
    pub c: [T; N],
}

// Safety: repr(C), one field that is the array itself, no requirements on the values.
unsafe impl<T, const N: usize> ArrayCast for ProbeA<T, N> {
    type Array = [T; N];
}
unsafe impl<T, const N: usize> ArrayCast for ProbeB<T, N> {
    type Array = [T; N];
}

/// A -> B moves every component one slot to the right (the last one to the front), B -> A back.
impl<T, const N: usize> FromColorUnclamped<ProbeA<T, N>> for ProbeB<T, N> {
    fn from_color_unclamped(a: ProbeA<T, N>) -> Self {
        tick();
        let mut c = a.c;
        c.rotate_right(1 % N.max(1));
        ProbeB { c }
    }
}
impl<T, const N: usize> FromColorUnclamped<ProbeB<T, N>> for ProbeA<T, N> {
    fn from_color_unclamped(b: ProbeB<T, N>) -> Self {
        tick();
        let mut c = b.c;
        c.rotate_left(1 % N.max(1));
        ProbeA { c }
    }
}
impl<T, const N: usize> FromColorUnclamped<ProbeA<T, N>> for ProbeA<T, N> {
    fn from_color_unclamped(a: ProbeA<T, N>) -> Self {
        tick();
        a
    }
}
impl<T, const N: usize> FromColorUnclamped<ProbeB<T, N>> for ProbeB<T, N> {
    fn from_color_unclamped(b: ProbeB<T, N>) -> Self {
        tick();
        b
    }
}
// what every real color also has (a bound on one of these must not stop the probes from building)
impl<T, const N: usize> core::fmt::Debug for ProbeA<T, N> {
    fn fmt(&self, f: &mut core::fmt::Formatter<'_>) -> core::fmt::Result {
        write!(f, "ProbeA<{N}>")
    }
}
impl<T, const N: usize> core::fmt::Debug for ProbeB<T, N> {
    fn fmt(&self, f: &mut core::fmt::Formatter<'_>) -> core::fmt::Result {
        write!(f, "ProbeB<{N}>")
    }
}
impl<T: PartialEq, const N: usize> PartialEq for ProbeA<T, N> {
    fn eq(&self, o: &Self) -> bool {
        self.c == o.c
    }
}
impl<T: PartialEq, const N: usize> PartialEq for ProbeB<T, N> {
    fn eq(&self, o: &Self) -> bool {
        self.c == o.c
    }
}
impl<T, const N: usize> Clamp for ProbeA<T, N> {
    fn clamp(self) -> Self {
        self
    }
}
impl<T, const N: usize> Clamp for ProbeB<T, N> {
    fn clamp(self) -> Self {
        self
    }
}
// The other bounds-related traits a user-defined color would normally have, so that a change in palette
// that asks for one more of them in a conversion's `where` clause (which every real color satisfies) is
// judged by what it does and not by the probe types failing to build.
impl<T, const N: usize> ClampAssign for ProbeA<T, N> {
    fn clamp_assign(&mut self) {}
}
impl<T, const N: usize> ClampAssign for ProbeB<T, N> {
    fn clamp_assign(&mut self) {}
}
impl<T, const N: usize> HasBoolMask for ProbeA<T, N> {
    type Mask = bool;
}
impl<T, const N: usize> HasBoolMask for ProbeB<T, N> {
    type Mask = bool;
}
impl<T, const N: usize> IsWithinBounds for ProbeA<T, N> {
    fn is_within_bounds(&self) -> bool {
        true
    }
}
impl<T, const N: usize> IsWithinBounds for ProbeB<T, N> {
    fn is_within_bounds(&self) -> bool {
        true
    }
}

// ------------------------------------------------------------------ plans

#[derive(Clone, Copy, Debug, Serialize, Deserialize, Hash, PartialEq, Eq)]
pub enum CrashEntry {
    MapVecInPlace,
    MapSliceBoxInPlace,
    VecFromColor,
    BoxFromColor,
    VecFromColorUnclamped,
    BoxFromColorUnclamped,
    SliceFromColorMut,
    SliceFromColorUnclampedMut,
    SingleFromColorMut,
    /// opening succeeds; the *restoring* conversion in `Drop` panics on element k
    GuardDrop,
    /// the restoring conversion in `restore()` panics on element k
    GuardRestore,
    UnclampedGuardDrop,
    /// `then_into_color_mut` panics on element k
    ThenInto,
    // ---- the other copy of the guard code (from_into_color_unclamped_mut.rs is a hand-kept twin) and the
    // ---- placements a depth-1 clamped guard does not reach
    UnclampedGuardRestore,
    /// clamped guard, `then_into_color_unclamped_mut` panics on element k
    ThenIntoUnclamped,
    /// unclamped guard, `then_into_color_mut` panics on element k
    UnclampedThenInto,
    SingleFromColorUnclampedMut,
    /// single-value guard: the restoring conversion in `Drop` panics
    SingleGuardDrop,
    /// single-value unclamped guard: the restoring conversion in `restore()` panics
    SingleUnclampedGuardRestore,
    /// two live guards (outer A->B, inner B->A on what the outer derefs to); the inner guard's restoring
    /// conversion panics on element k, and the outer guard is dropped by the same unwinding
    NestedInnerDrop,
}

pub const ENTRIES: [CrashEntry; 20] = [
    CrashEntry::MapVecInPlace,
    CrashEntry::MapSliceBoxInPlace,
    CrashEntry::VecFromColor,
    CrashEntry::BoxFromColor,
    CrashEntry::VecFromColorUnclamped,
    CrashEntry::BoxFromColorUnclamped,
    CrashEntry::SliceFromColorMut,
    CrashEntry::SliceFromColorUnclampedMut,
    CrashEntry::SingleFromColorMut,
    CrashEntry::GuardDrop,
    CrashEntry::GuardRestore,
    CrashEntry::UnclampedGuardDrop,
    CrashEntry::ThenInto,
    CrashEntry::UnclampedGuardRestore,
    CrashEntry::ThenIntoUnclamped,
    CrashEntry::UnclampedThenInto,
    CrashEntry::SingleFromColorUnclampedMut,
    CrashEntry::SingleGuardDrop,
    CrashEntry::SingleUnclampedGuardRestore,
    CrashEntry::NestedInnerDrop,
];

impl CrashEntry {
    fn name(self) -> &'static str {
        match self {
            CrashEntry::MapVecInPlace => "map_vec_in_place",
            CrashEntry::MapSliceBoxInPlace => "map_slice_box_in_place",
            CrashEntry::VecFromColor => "Vec::from_color",
            CrashEntry::BoxFromColor => "Box<[_]>::from_color",
            CrashEntry::VecFromColorUnclamped => "Vec::from_color_unclamped",
            CrashEntry::BoxFromColorUnclamped => "Box<[_]>::from_color_unclamped",
            CrashEntry::SliceFromColorMut => "slice from_color_mut",
            CrashEntry::SliceFromColorUnclampedMut => "slice from_color_unclamped_mut",
            CrashEntry::SingleFromColorMut => "single-value from_color_mut",
            CrashEntry::GuardDrop => "guard Drop",
            CrashEntry::GuardRestore => "guard restore()",
            CrashEntry::UnclampedGuardDrop => "unclamped guard Drop",
            CrashEntry::ThenInto => "then_into_color_mut",
            CrashEntry::UnclampedGuardRestore => "unclamped guard restore()",
            CrashEntry::ThenIntoUnclamped => "then_into_color_unclamped_mut",
            CrashEntry::UnclampedThenInto => "then_into_color_mut on an unclamped guard",
            CrashEntry::SingleFromColorUnclampedMut => "single-value from_color_unclamped_mut",
            CrashEntry::SingleGuardDrop => "single-value guard Drop",
            CrashEntry::SingleUnclampedGuardRestore => "single-value unclamped guard restore()",
            CrashEntry::NestedInnerDrop => "inner guard Drop under a live outer guard",
        }
    }
    fn single(self) -> bool {
        matches!(self, CrashEntry::SingleFromColorMut | CrashEntry::SingleFromColorUnclampedMut | CrashEntry::SingleGuardDrop | CrashEntry::SingleUnclampedGuardRestore)
    }
    /// The caller keeps owning the buffer (slice / single-value entry points).
    fn caller_owns(self) -> bool {
        !matches!(
            self,
            CrashEntry::MapVecInPlace
                | CrashEntry::MapSliceBoxInPlace
                | CrashEntry::VecFromColor
                | CrashEntry::BoxFromColor
                | CrashEntry::VecFromColorUnclamped
                | CrashEntry::BoxFromColorUnclamped
        )
    }
}

#[derive(Clone, Debug, Serialize, Deserialize, Hash, PartialEq, Eq)]
pub struct CrashPlan {
    pub entry: CrashEntry,
    pub len: u8,
    /// `None`: no fault (the fault-free twin); `Some(k)`: panic on the k-th element conversion
    pub k: Option<u8>,
    pub extra_cap: u8,
    /// components per probe color (1, 2, 3 or 4); older replay files have none: 3
    #[serde(default = "three")]
    pub ncomp: u8,
}

fn three() -> u8 {
    3
}

pub fn enumerate() -> Vec<CrashPlan> {
    let mut v = Vec::new();
    // three components: lengths 0..=6; one, two and four components: lengths 0..=3
    // ... and ZERO components: a zero-sized color (a user-defined marker color; `ArrayCast::Array = [T; 0]`), lengths
    // 0..=5 — nothing to convert and nothing to drop, but the buffer still has a length, and so must every view of it
    for (ncomp, max_len) in [(3u8, 6u8), (1, 3), (2, 3), (4, 3), (0, 5)] {
        for entry in ENTRIES {
            for len in 0..=max_len {
                if entry.single() && len != 1 {
                    continue;
                }
                v.push(CrashPlan { entry, len, k: None, extra_cap: len % 3, ncomp });
                for k in 0..len {
                    v.push(CrashPlan { entry, len, k: Some(k), extra_cap: (len + k) % 3, ncomp });
                }
            }
        }
    }
    // a few lengths around chunk sizes (three components), crash at the first, a middle and the last element
    for entry in ENTRIES {
        if entry.single() {
            continue;
        }
        for len in [8u8, 9, 16, 17, 33] {
            v.push(CrashPlan { entry, len, k: None, extra_cap: len % 3, ncomp: 3 });
            for k in [0, len / 2, len - 1] {
                v.push(CrashPlan { entry, len, k: Some(k), extra_cap: (len + k) % 3, ncomp: 3 });
            }
        }
    }
    v
}

// ------------------------------------------------------------------ execution

fn make_buffer<const N: usize>(len: usize, extra_cap: usize) -> Vec<ProbeA<Tracked, N>> {
    let mut v = Vec::with_capacity(len + extra_cap);
    for i in 0..len {
        let b = (i as u32) * 10;
        v.push(ProbeA { c: core::array::from_fn(|j| Tracked::new(b + 1 + j as u32)) });
    }
    v
}

/// Component values of element `i` in the original (A) layout and after one A -> B conversion.
fn expect_values<const N: usize>(len: usize, converted: bool) -> Vec<u32> {
    (0..len as u32)
        .flat_map(|i| {
            let mut c: [u32; N] = core::array::from_fn(|j| i * 10 + 1 + j as u32);
            if converted {
                c.rotate_right(1 % N.max(1));
            }
            c
        })
        .collect()
}

fn arm(k: Option<usize>) {
    reg(|r| {
        r.countdown = k;
        r.conversions = 0;
    });
}

/// Ids and values of every component slot of a caller-owned buffer, read
/// through the array view (the slots are `Tracked` whatever color type the
/// memory currently represents).
fn slots<const N: usize>(buf: &[ProbeA<Tracked, N>]) -> Vec<(u64, u32)> {
    let arrays: &[[Tracked; N]] = cast::into_array_slice(buf);
    arrays.iter().flat_map(|a| a.iter().map(|t| (t.id(), t.val))).collect()
}

pub fn execute(plan: &CrashPlan, ctx: &mut Ctx<'_>) {
    match plan.ncomp {
        0 => execute_n::<0>(plan, ctx),
        1 => execute_n::<1>(plan, ctx),
        2 => execute_n::<2>(plan, ctx),
        4 => execute_n::<4>(plan, ctx),
        _ => execute_n::<3>(plan, ctx),
    }
}

fn execute_n<const N: usize>(plan: &CrashPlan, ctx: &mut Ctx<'_>) {
    // fresh registry for this plan (ids restart, so logs are reproducible)
    reg(|r| *r = Registry::default());
    let len = plan.len as usize;
    let k = plan.k.map(|k| k as usize);
    let name = plan.entry.name();
    ctx.step();
    ctx.cell(name, if k.is_some() { "crash" } else { "no-fault" });
    ev!(ctx, "crash-point world: entry={name} len={len} k={k:?} capacity+{}", plan.extra_cap);
    let buf = make_buffer::<N>(len, plan.extra_cap as usize);
    let before = (buf.as_ptr() as usize, buf.len(), buf.capacity());
    let key = format!("crash:{name}");

    // what the caller still owns after the call (slice entry points), and what came back (owned entry points)
    let mut kept: Option<Vec<ProbeA<Tracked, N>>> = None;
    let mut returned: Option<(Vec<ProbeB<Tracked, N>>, (usize, usize, usize))> = None;

    let outcome = match plan.entry {
        CrashEntry::MapVecInPlace
        | CrashEntry::VecFromColor
        | CrashEntry::VecFromColorUnclamped
        | CrashEntry::MapSliceBoxInPlace
        | CrashEntry::BoxFromColor
        | CrashEntry::BoxFromColorUnclamped => {
            arm(k);
            let entry = plan.entry;
            catch(move || -> (Vec<ProbeB<Tracked, N>>, (usize, usize, usize), (usize, usize, usize)) {
                match entry {
                    CrashEntry::MapVecInPlace => {
                        let out: Vec<ProbeB<Tracked, N>> = cast::map_vec_in_place(buf, |a: ProbeA<Tracked, N>| <ProbeB<Tracked, N>>::from_color(a));
                        let after = (out.as_ptr() as usize, out.len(), out.capacity());
                        (out, before, after)
                    }
                    CrashEntry::VecFromColor => {
                        let out: Vec<ProbeB<Tracked, N>> = Vec::<ProbeB<Tracked, N>>::from_color(buf);
                        let after = (out.as_ptr() as usize, out.len(), out.capacity());
                        (out, before, after)
                    }
                    CrashEntry::VecFromColorUnclamped => {
                        let out: Vec<ProbeB<Tracked, N>> = Vec::<ProbeB<Tracked, N>>::from_color_unclamped(buf);
                        let after = (out.as_ptr() as usize, out.len(), out.capacity());
                        (out, before, after)
                    }
                    _ => {
                        let boxed: Box<[ProbeA<Tracked, N>]> = buf.into_boxed_slice();
                        let b4 = (boxed.as_ptr() as usize, boxed.len(), boxed.len());
                        let out: Box<[ProbeB<Tracked, N>]> = match entry {
                            CrashEntry::MapSliceBoxInPlace => cast::map_slice_box_in_place(boxed, |a: ProbeA<Tracked, N>| <ProbeB<Tracked, N>>::from_color(a)),
                            CrashEntry::BoxFromColor => Box::<[ProbeB<Tracked, N>]>::from_color(boxed),
                            _ => Box::<[ProbeB<Tracked, N>]>::from_color_unclamped(boxed),
                        };
                        let after = (out.as_ptr() as usize, out.len(), out.len());
                        (out.into_vec(), b4, after)
                    }
                }
            })
            .map(|(out, b4, after)| {
                returned = Some((out, after));
                // (address, length, capacity); a container without an allocation has no address to keep
                b4.1 == after.1 && b4.2 == after.2 && (b4.2 == 0 || b4.0 == after.0)
            })
        }
        CrashEntry::SliceFromColorMut | CrashEntry::SliceFromColorUnclampedMut | CrashEntry::SingleFromColorMut | CrashEntry::SingleFromColorUnclampedMut => {
            let mut buf = buf;
            arm(k);
            let entry = plan.entry;
            let r = catch(|| {
                match entry {
                    CrashEntry::SliceFromColorMut => {
                        let g = <[ProbeB<Tracked, N>]>::from_color_mut(&mut buf[..]);
                        let same = { let view: &[ProbeB<Tracked, N>] = &g; view.len() == before.1 && (view.is_empty() || view.as_ptr() as usize == before.0) };
                        // leave the converted state behind; restoring is GuardDrop's business
                        core::mem::forget(g);
                        same
                    }
                    CrashEntry::SliceFromColorUnclampedMut => {
                        let g = <[ProbeB<Tracked, N>]>::from_color_unclamped_mut(&mut buf[..]);
                        let same = { let view: &[ProbeB<Tracked, N>] = &g; view.len() == before.1 && (view.is_empty() || view.as_ptr() as usize == before.0) };
                        core::mem::forget(g);
                        same
                    }
                    CrashEntry::SingleFromColorUnclampedMut => {
                        let g = <ProbeB<Tracked, N>>::from_color_unclamped_mut(&mut buf[0]);
                        let same = { let view: &ProbeB<Tracked, N> = &g; view as *const ProbeB<Tracked, N> as usize == before.0 };
                        core::mem::forget(g);
                        same
                    }
                    _ => {
                        let g = <ProbeB<Tracked, N>>::from_color_mut(&mut buf[0]);
                        let same = { let view: &ProbeB<Tracked, N> = &g; view as *const ProbeB<Tracked, N> as usize == before.0 };
                        core::mem::forget(g);
                        same
                    }
                }
            });
            kept = Some(buf);
            r
        }
        CrashEntry::GuardDrop
        | CrashEntry::GuardRestore
        | CrashEntry::UnclampedGuardDrop
        | CrashEntry::ThenInto
        | CrashEntry::UnclampedGuardRestore
        | CrashEntry::ThenIntoUnclamped
        | CrashEntry::UnclampedThenInto
        | CrashEntry::SingleGuardDrop
        | CrashEntry::SingleUnclampedGuardRestore
        | CrashEntry::NestedInnerDrop => {
            let mut buf = buf;
            let entry = plan.entry;
            arm(None);
            let r = catch(|| {
                match entry {
                    CrashEntry::GuardDrop => {
                        let g = <[ProbeB<Tracked, N>]>::from_color_mut(&mut buf[..]);
                        arm(k);
                        drop(g); // the restoring conversion panics inside Drop
                        true
                    }
                    CrashEntry::GuardRestore => {
                        let g = <[ProbeB<Tracked, N>]>::from_color_mut(&mut buf[..]);
                        arm(k);
                        let r: &mut [ProbeA<Tracked, N>] = g.restore();
                        r.len() == before.1 && (r.len() == 0 || r.as_ptr() as usize == before.0)
                    }
                    CrashEntry::UnclampedGuardDrop => {
                        let g = <[ProbeB<Tracked, N>]>::from_color_unclamped_mut(&mut buf[..]);
                        arm(k);
                        drop(g);
                        true
                    }
                    CrashEntry::UnclampedGuardRestore => {
                        let g = <[ProbeB<Tracked, N>]>::from_color_unclamped_mut(&mut buf[..]);
                        arm(k);
                        let r: &mut [ProbeA<Tracked, N>] = g.restore();
                        r.len() == before.1 && (r.is_empty() || r.as_ptr() as usize == before.0)
                    }
                    CrashEntry::ThenIntoUnclamped => {
                        let g = <[ProbeB<Tracked, N>]>::from_color_mut(&mut buf[..]);
                        arm(k);
                        let g2 = g.then_into_color_unclamped_mut::<[ProbeA<Tracked, N>]>();
                        let same = { let view: &[ProbeA<Tracked, N>] = &g2; view.len() == before.1 && (view.is_empty() || view.as_ptr() as usize == before.0) };
                        arm(None);
                        drop(g2);
                        same
                    }
                    CrashEntry::UnclampedThenInto => {
                        let g = <[ProbeB<Tracked, N>]>::from_color_unclamped_mut(&mut buf[..]);
                        arm(k);
                        let g2 = g.then_into_color_mut::<[ProbeA<Tracked, N>]>();
                        let same = { let view: &[ProbeA<Tracked, N>] = &g2; view.len() == before.1 && (view.is_empty() || view.as_ptr() as usize == before.0) };
                        arm(None);
                        drop(g2);
                        same
                    }
                    CrashEntry::SingleGuardDrop => {
                        let g = <ProbeB<Tracked, N>>::from_color_mut(&mut buf[0]);
                        arm(k);
                        drop(g);
                        true
                    }
                    CrashEntry::SingleUnclampedGuardRestore => {
                        let g = <ProbeB<Tracked, N>>::from_color_unclamped_mut(&mut buf[0]);
                        arm(k);
                        let r: &mut ProbeA<Tracked, N> = g.restore();
                        r as *mut ProbeA<Tracked, N> as usize == before.0
                    }
                    CrashEntry::NestedInnerDrop => {
                        let mut outer = <[ProbeB<Tracked, N>]>::from_color_mut(&mut buf[..]);
                        {
                            let on: &mut [ProbeB<Tracked, N>] = &mut outer;
                            let inner = <[ProbeA<Tracked, N>]>::from_color_mut(on);
                            arm(k);
                            drop(inner); // the restoring conversion A -> B panics; `outer` is dropped by the same unwinding
                        }
                        arm(None);
                        drop(outer);
                        true
                    }
                    _ => {
                        let g = <[ProbeB<Tracked, N>]>::from_color_mut(&mut buf[..]);
                        arm(k);
                        // ProbeA<Tracked, N> -> ProbeB<Tracked, N> -> ProbeA<Tracked, N> again, in place, without an extra restoring hop
                        let g2 = g.then_into_color_mut::<[ProbeA<Tracked, N>]>();
                        let same = { let view: &[ProbeA<Tracked, N>] = &g2; view.len() == before.1 && (view.is_empty() || view.as_ptr() as usize == before.0) };
                        arm(None);
                        drop(g2);
                        same
                    }
                }
            });
            kept = Some(buf);
            r
        }
    };
    arm(None);

    let fired = matches!(outcome, Caught::Injected(_));
    let outcome_name = match &outcome {
        Caught::Ok(true) => "returned",
        Caught::Ok(false) => "returned-elsewhere",
        Caught::Injected(_) => "crashed",
        Caught::Foreign(_) => "foreign-panic",
    };
    ctx.state(&(name, len, k, outcome_name));
    ev!(ctx, "outcome={outcome_name} conversions={}", reg(|r| r.conversions));
    ctx.checked();
    ctx.changed();
    match outcome {
        Caught::Foreign(msg) => {
            ctx.fail(&key, &key, format!("{name} panicked on its own: {msg}"));
            return;
        }
        Caught::Ok(same) => {
            if k.is_some() && len > 0 {
                ctx.fail(&key, &key, format!("{name}: the conversion was to panic on element {k:?} of {len} but the call returned (the conversion ran {} times)", reg(|r| r.conversions)));
                return;
            }
            if !same {
                ctx.fail(&format!("{key}:memory-reuse"), &key, format!("{name}: the result does not live at the same address / length / capacity as the input"));
                return;
            }
        }
        Caught::Injected(_) => {
            ctx.fired("unwind@convert(k)");
            ctx.probe("crash-point-fired");
        }
    }

    // ---- ownership oracle
    if let Some(e) = reg(|r| r.errors.first().cloned()) {
        ctx.fail(&format!("{key}:ownership"), &key, format!("{name} len={len} k={k:?}: {e}"));
        return;
    }
    if let Some(buf) = kept {
        // the caller still owns this buffer: original length, every slot a distinct live component
        let s = slots(&buf);
        let live = reg(|r| r.live.clone());
        let mut seen = BTreeSet::new();
        let bad = buf.len() != len || s.iter().any(|(id, _)| !live.contains(id) || !seen.insert(*id));
        if bad {
            ctx.fail(
                &format!("{key}:ownership"),
                &key,
                format!("{name} len={len} k={k:?}: the caller's buffer has length {} and component ids {:?}; live ids {:?}", buf.len(), s.iter().map(|x| x.0).collect::<Vec<_>>(), live),
            );
            return;
        }
        if !fired {
            // values moved as the conversions say: forgotten open guard = ProbeB<Tracked, N> layout (z, x, y);
            // dropped / restored / round-tripped = back to (x, y, z)
            let converted = matches!(plan.entry, CrashEntry::SliceFromColorMut | CrashEntry::SliceFromColorUnclampedMut | CrashEntry::SingleFromColorMut | CrashEntry::SingleFromColorUnclampedMut);
            let expect: Vec<u32> = expect_values::<N>(len, converted);
            let got: Vec<u32> = s.iter().map(|x| x.1).collect();
            if got != expect {
                ctx.fail(&format!("{key}:values"), &key, format!("{name} len={len}: component values {got:?}, expected {expect:?}"));
                return;
            }
        }
        drop(buf);
        if let Some(e) = reg(|r| r.errors.first().cloned()) {
            ctx.fail(&format!("{key}:ownership"), &key, format!("{name} len={len} k={k:?}: dropping the caller's buffer afterwards: {e}"));
            return;
        }
        let leaked = reg(|r| r.live.len());
        if leaked != 0 {
            if fired {
                // a leak after a crash is safe, only counted
                ctx.extra("components-leaked-after-crash", leaked as u64);
            } else {
                ctx.fail(&format!("{key}:leak"), &key, format!("{name} len={len}: {leaked} components were never dropped although nothing failed"));
                return;
            }
        }
    }
    if let Some((out, _after)) = returned {
        let got: Vec<u32> = cast::into_array_slice(&out[..]).iter().flat_map(|a: &[Tracked; N]| a.iter().map(|t| t.val)).collect();
        let expect: Vec<u32> = expect_values::<N>(len, true);
        if got != expect {
            ctx.fail(&format!("{key}:values"), &key, format!("{name} len={len}: component values {got:?}, expected {expect:?}"));
            return;
        }
        drop(out);
        if let Some(e) = reg(|r| r.errors.first().cloned()) {
            ctx.fail(&format!("{key}:ownership"), &key, format!("{name} len={len}: dropping the result: {e}"));
            return;
        }
        let leaked = reg(|r| r.live.len());
        if leaked != 0 {
            ctx.fail(&format!("{key}:leak"), &key, format!("{name} len={len}: {leaked} components were never dropped although nothing failed"));
            return;
        }
    } else if !plan.entry.caller_owns() {
        // consumed and crashed: the container may be leaked, but nothing may have been dropped twice (checked above)
        ctx.extra("components-leaked-after-crash", reg(|r| r.live.len()) as u64);
    }
    let (c, d) = reg(|r| (r.constructed, r.dropped));
    ev!(ctx, "components constructed={c} dropped={d} live={}", reg(|r| r.live.len()));
}
