//! Memory-safety oracle for C13 (thorough tier): re-executes a reduced set of
//! C13 plans — every crash point of world B for lengths 0..=3 and a fixed
//! sample of short world-A guard histories (incl. length 0, forget, unwind) —
//! in one thread, so that the whole thing can run under Miri:
//!
//!   MIRIFLAGS="-Zmiri-ignore-leaks" cargo +nightly miri run --offline -p c13miri -- <seed> <world-a-plans>
//!
//! Under Miri a use-after-free, double free, invalid or aliased `&mut`,
//! misaligned or out-of-bounds access inside the `unsafe` casts aborts the run
//! with a diagnostic even when the values still look right. Natively the same
//! binary is just a smoke run of the same plans.
//!
//! Output: one line per plan, `MIRI-STAGE-OK plans=<n>` at the end; exit 1 with
//! `MIRI-STAGE-VIOLATION index=<i>` if a plan's own oracle fails.

use c13::{Plan, C13};
use simcore::core::{execute_once, install_panic_hook, make_plan, Known, Stats, Tier, World};

fn main() {
    install_panic_hook();
    let args: Vec<String> = std::env::args().collect();
    let seed: u64 = args.get(1).and_then(|s| s.parse().ok()).unwrap_or(simcore::core::DEFAULT_SEED);
    let want_a: usize = args.get(2).and_then(|s| s.parse().ok()).unwrap_or(40);
    let w = C13::new();
    let known = Known::default();
    let enumerated = w.enumerated(Tier::Quick);
    let mut stats = Stats::default();
    let mut ran = 0usize;
    // world B: every entry point, lengths 0..=3, every crash position
    for index in 0..enumerated {
        let plan = make_plan(&w, seed, index, Tier::Quick);
        if let Plan::Crash(c) = &plan {
            // three components: lengths 0..=3; one, two and four components: lengths 0..=2
            if c.len > 3 || (c.ncomp != 3 && c.len > 2) {
                continue;
            }
        }
        let r = execute_once(&w, &plan, &mut stats, &known, false);
        ran += 1;
        if let Some(v) = r.violation {
            println!("MIRI-STAGE-VIOLATION index={index} class={} detail={}", v.class, v.detail);
            std::process::exit(1);
        }
    }
    println!("world B: {ran} crash-point plans executed");
    // world A: short plans only (Miri interprets every float operation)
    let mut picked = 0usize;
    let mut index = enumerated;
    let mut kinds = std::collections::BTreeMap::<&'static str, usize>::new();
    // every layout family (component counts 1, 2, 3, 4, f64 x 3 and x 4, and the Oklab-based types) gets its share: the array casts are monomorphic per layout
    let mut layouts = std::collections::BTreeMap::<String, usize>::new();
    while picked < want_a && index < enumerated + 60_000 {
        let plan = make_plan(&w, seed, index, Tier::Quick);
        index += 1;
        let Plan::Guards { buf, episodes, layout, .. } = &plan else { continue };
        let text = serde_json::to_string(&plan).unwrap_or_default();
        let size = text.matches("\"Write\"").count() + text.matches("\"Nest\"").count() * 2 + text.matches("\"ThenInto\"").count() + episodes.len();
        if buf.len() > 4 || size > 9 {
            continue;
        }
        // make sure the interesting ends of life are in the sample
        // stratified on (end of life, slice | single-value guard): a single-value guard that is forgotten or
        // unwound through must be in the sample too
        let base = if buf.is_empty() {
            "len0"
        } else if text.contains("\"Unwind\"") {
            "unwind"
        } else if text.contains("\"Forget\"") {
            "forget"
        } else if text.contains("\"Owned\"") {
            "owned"
        } else {
            "plain"
        };
        let tag: &'static str = match (text.contains("\"Single\""), base) {
            (true, "unwind") => "single+unwind",
            (true, "forget") => "single+forget",
            (true, _) => "single",
            (false, b) => b,
        };
        if kinds.get(tag).copied().unwrap_or(0) >= want_a.div_ceil(7) || layouts.get(&format!("{layout:?}")).copied().unwrap_or(0) >= want_a.div_ceil(7) {
            continue;
        }
        *kinds.entry(tag).or_default() += 1;
        *layouts.entry(format!("{layout:?}")).or_default() += 1;
        let r = execute_once(&w, &plan, &mut stats, &known, false);
        picked += 1;
        ran += 1;
        if let Some(v) = r.violation {
            println!("MIRI-STAGE-VIOLATION index={} class={} detail={}", index - 1, v.class, v.detail);
            std::process::exit(1);
        }
    }
    println!("world A: {picked} guard-history plans executed ({kinds:?}, {layouts:?})");
    println!("MIRI-STAGE-OK plans={ran} steps={} comparisons={}", stats.steps, stats.oracle_checks);
}
