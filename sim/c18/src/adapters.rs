//! Thin adapters between the C18 interpreter and palette's real
//! struct-of-arrays API. One adapter per (color type, plain | alpha | alpha of
//! another element type). Everything that *does* something here is a call into
//! palette; the adapters only convert between palette's color types and the
//! interpreter's `[f32; 4]` item (public fields in declaration order, then
//! alpha), so the interpreter is compiled once instead of once per type.

use super::{run_sched, Form, Item, Obs, RangeSpec, SnapAction, B};
use core::marker::PhantomData;
use core::ops::Bound;
use palette::Alpha;

// ------------------------------------------------------------------ iterators

pub trait It {
    fn next(&mut self) -> Option<Item>;
    fn next_back(&mut self) -> Option<Item>;
    fn len(&self) -> usize;
    fn size_hint(&self) -> (usize, Option<usize>);
    fn count(self: Box<Self>) -> usize;
    // ---- the other Iterator / DoubleEndedIterator methods and adaptors: std derives them from
    // `next` / `next_back`, but an iterator may override any of them (`nth_back` is what
    // `rev().skip(n)` and `rev().step_by(k)` call), so they belong to "forward/backward iteration"
    fn nth(&mut self, n: usize) -> Option<Item>;
    fn nth_back(&mut self, n: usize) -> Option<Item>;
    fn last(self: Box<Self>) -> Option<Item>;
    /// everything left, through `Iterator::fold`
    fn fold_all(self: Box<Self>) -> Vec<Item>;
    /// everything left, back to front, through `DoubleEndedIterator::rfold`
    fn rfold_all(self: Box<Self>) -> Vec<Item>;
    /// `rev()`, then optionally `skip(n)` / `step_by(k)`, collected
    fn adapt_all(self: Box<Self>, rev: bool, skip: usize, step: usize) -> Vec<Item>;
    /// everything left, through `Iterator::for_each`
    fn for_each_all(self: Box<Self>) -> Vec<Item>;
    // the searching methods with the fixed predicate `sel_pred`
    fn find_sel(&mut self, sel: u8) -> Option<Item>;
    fn rfind_sel(&mut self, sel: u8) -> Option<Item>;
    fn position_sel(&mut self, sel: u8) -> Option<usize>;
    fn rposition_sel(&mut self, sel: u8) -> Option<usize>;
    fn any_sel(&mut self, sel: u8) -> bool;
    fn all_sel(&mut self, sel: u8) -> bool;
    /// Overwrite the element that the next `next`/`next_back` yields (mutable
    /// iterators only; `None` for read-only ones).
    fn next_set(&mut self, _new: Item) -> Option<Option<Item>> {
        None
    }
    fn next_back_set(&mut self, _new: Item) -> Option<Option<Item>> {
        None
    }
}

/// Wraps a real iterator (palette's or std's) whose items can be read as `Item`.
pub struct ReadIt<I, F>(pub I, pub F);

impl<I, F> It for ReadIt<I, F>
where
    I: DoubleEndedIterator + ExactSizeIterator,
    F: Fn(I::Item) -> Item,
{
    fn next(&mut self) -> Option<Item> {
        self.0.next().map(&self.1)
    }
    fn next_back(&mut self) -> Option<Item> {
        self.0.next_back().map(&self.1)
    }
    fn len(&self) -> usize {
        ExactSizeIterator::len(&self.0)
    }
    fn size_hint(&self) -> (usize, Option<usize>) {
        self.0.size_hint()
    }
    fn count(self: Box<Self>) -> usize {
        self.0.count()
    }
    fn nth(&mut self, n: usize) -> Option<Item> {
        self.0.nth(n).map(&self.1)
    }
    fn nth_back(&mut self, n: usize) -> Option<Item> {
        self.0.nth_back(n).map(&self.1)
    }
    fn last(self: Box<Self>) -> Option<Item> {
        let ReadIt(it, f) = *self;
        it.last().map(f)
    }
    fn fold_all(self: Box<Self>) -> Vec<Item> {
        let ReadIt(it, f) = *self;
        it.fold(Vec::new(), |mut v, x| {
            v.push(f(x));
            if v.len() > crate::ITER_CAP * 64 {
                panic!("{}", crate::ITER_NEVER_ENDS);
            }
            v
        })
    }
    fn rfold_all(self: Box<Self>) -> Vec<Item> {
        let ReadIt(it, f) = *self;
        it.rfold(Vec::new(), |mut v, x| {
            v.push(f(x));
            v
        })
    }
    fn adapt_all(self: Box<Self>, rev: bool, skip: usize, step: usize) -> Vec<Item> {
        let ReadIt(it, f) = *self;
        adapt(it, rev, skip, step).into_iter().map(f).collect()
    }    fn for_each_all(self: Box<Self>) -> Vec<Item> {
        let ReadIt(it, f) = *self;
        let mut v = Vec::new();
        it.for_each(|x| {
            v.push(f(x));
            if v.len() > crate::ITER_CAP * 64 {
                panic!("{}", crate::ITER_NEVER_ENDS);
            }
        });
        v
    }
    fn find_sel(&mut self, sel: u8) -> Option<Item> {
        let f = &self.1;
        // the predicate sees the item by reference; read it through a by-value copy of the mapped form
        let mut found = None;
        let _ = self.0.find_map(|x| {
            let it = f(x);
            if crate::sel_pred(&it, sel) {
                found = Some(it);
                Some(())
            } else {
                None
            }
        });
        found
    }
    fn rfind_sel(&mut self, sel: u8) -> Option<Item> {
        let f = &self.1;
        let mut found = None;
        // `rfind` proper needs the item by reference; `rev().find_map` drives `next_back`/`try_rfold` the same way
        let _ = self.0.by_ref().rev().find_map(|x| {
            let it = f(x);
            if crate::sel_pred(&it, sel) {
                found = Some(it);
                Some(())
            } else {
                None
            }
        });
        found
    }
    fn position_sel(&mut self, sel: u8) -> Option<usize> {
        let f = &self.1;
        self.0.position(|x| crate::sel_pred(&f(x), sel))
    }
    fn rposition_sel(&mut self, sel: u8) -> Option<usize> {
        let f = &self.1;
        self.0.rposition(|x| crate::sel_pred(&f(x), sel))
    }
    fn any_sel(&mut self, sel: u8) -> bool {
        let f = &self.1;
        self.0.any(|x| crate::sel_pred(&f(x), sel))
    }
    fn all_sel(&mut self, sel: u8) -> bool {
        let f = &self.1;
        self.0.all(|x| crate::sel_pred(&f(x), sel))
    }
}

/// `rev` / `skip` / `step_by` adaptors on a real iterator, collected.
fn adapt<I: DoubleEndedIterator + ExactSizeIterator>(it: I, rev: bool, skip: usize, step: usize) -> Vec<I::Item> {
    match (rev, skip > 0, step > 1) {
        (false, false, false) => it.collect(),
        (false, true, false) => it.skip(skip).collect(),
        (false, false, true) => it.step_by(step).collect(),
        (false, true, true) => it.skip(skip).step_by(step).collect(),
        (true, false, false) => it.rev().collect(),
        (true, true, false) => it.rev().skip(skip).collect(),
        (true, false, true) => it.rev().step_by(step).collect(),
        (true, true, true) => it.rev().skip(skip).step_by(step).collect(),
    }
}

/// Wraps a real iterator over mutable handles: `R` reads a handle, `W` writes it.
/// What a call on a collection whose alpha has another element type answers with. Should palette's own
/// `with_capacity` / `push` / `pop` / `clear` / `drain` for `Alpha<Color<Vec<T>>, Vec<A>>` with `A != T` ever
/// go away, method calls fall through `Deref` to the color collection and leave the alpha vector behind. The
/// harness must still build then and *show* that, instead of answering "does not build": the item conversion
/// accepts both answers (a bare color counts as "alpha lost"), and the two entry points the harness cannot do
/// without have fall-backs of the same name (an inherent method or function always wins over a trait's).
/// (Learnt from a seeded change that narrowed the impl header to `Vec<T>` alpha.)
pub trait AnswerM {
    fn into_item_m(self) -> Item;
    fn from_item_m(a: Item) -> Self;
}

pub fn read_answers<'a, I>(it: I) -> Box<dyn It + 'a>
where
    I: DoubleEndedIterator + ExactSizeIterator + 'a,
    I::Item: AnswerM,
{
    Box::new(ReadIt(it, |c: I::Item| c.into_item_m()))
}

pub struct WriteIt<I, R, W>(pub I, pub R, pub W);

impl<I, R, W> It for WriteIt<I, R, W>
where
    I: DoubleEndedIterator + ExactSizeIterator,
    R: Fn(&I::Item) -> Item,
    W: Fn(&mut I::Item, Item),
{
    fn next(&mut self) -> Option<Item> {
        self.0.next().map(|h| (self.1)(&h))
    }
    fn next_back(&mut self) -> Option<Item> {
        self.0.next_back().map(|h| (self.1)(&h))
    }
    fn len(&self) -> usize {
        ExactSizeIterator::len(&self.0)
    }
    fn size_hint(&self) -> (usize, Option<usize>) {
        self.0.size_hint()
    }
    fn count(self: Box<Self>) -> usize {
        self.0.count()
    }
    fn nth(&mut self, n: usize) -> Option<Item> {
        self.0.nth(n).map(|h| (self.1)(&h))
    }
    fn nth_back(&mut self, n: usize) -> Option<Item> {
        self.0.nth_back(n).map(|h| (self.1)(&h))
    }
    fn last(self: Box<Self>) -> Option<Item> {
        let WriteIt(it, r, _) = *self;
        it.last().map(|h| r(&h))
    }
    fn fold_all(self: Box<Self>) -> Vec<Item> {
        let WriteIt(it, r, _) = *self;
        it.fold(Vec::new(), |mut v, h| {
            v.push(r(&h));
            if v.len() > crate::ITER_CAP * 64 {
                panic!("{}", crate::ITER_NEVER_ENDS);
            }
            v
        })
    }
    fn rfold_all(self: Box<Self>) -> Vec<Item> {
        let WriteIt(it, r, _) = *self;
        it.rfold(Vec::new(), |mut v, h| {
            v.push(r(&h));
            v
        })
    }
    fn adapt_all(self: Box<Self>, rev: bool, skip: usize, step: usize) -> Vec<Item> {
        let WriteIt(it, r, _) = *self;
        adapt(it, rev, skip, step).into_iter().map(|h| r(&h)).collect()
    }
    fn for_each_all(self: Box<Self>) -> Vec<Item> {
        let WriteIt(it, r, _) = *self;
        let mut v = Vec::new();
        it.for_each(|h| {
            v.push(r(&h));
            if v.len() > crate::ITER_CAP * 64 {
                panic!("{}", crate::ITER_NEVER_ENDS);
            }
        });
        v
    }
    fn find_sel(&mut self, sel: u8) -> Option<Item> {
        let r = &self.1;
        self.0.find(|h| crate::sel_pred(&r(h), sel)).map(|h| r(&h))
    }
    fn rfind_sel(&mut self, sel: u8) -> Option<Item> {
        let r = &self.1;
        self.0.rfind(|h| crate::sel_pred(&r(h), sel)).map(|h| r(&h))
    }
    fn position_sel(&mut self, sel: u8) -> Option<usize> {
        let r = &self.1;
        self.0.position(|h| crate::sel_pred(&r(&h), sel))
    }
    fn rposition_sel(&mut self, sel: u8) -> Option<usize> {
        let r = &self.1;
        self.0.rposition(|h| crate::sel_pred(&r(&h), sel))
    }
    fn any_sel(&mut self, sel: u8) -> bool {
        let r = &self.1;
        self.0.any(|h| crate::sel_pred(&r(&h), sel))
    }
    fn all_sel(&mut self, sel: u8) -> bool {
        let r = &self.1;
        self.0.all(|h| crate::sel_pred(&r(&h), sel))
    }

    fn next_set(&mut self, new: Item) -> Option<Option<Item>> {
        Some(self.0.next().map(|mut h| {
            let old = (self.1)(&h);
            (self.2)(&mut h, new);
            old
        }))
    }
    fn next_back_set(&mut self, new: Item) -> Option<Option<Item>> {
        Some(self.0.next_back().map(|mut h| {
            let old = (self.1)(&h);
            (self.2)(&mut h, new);
            old
        }))
    }
}

// ------------------------------------------------------------------ the SUT interface

pub struct SnapResult {
    pub trace: Vec<Obs>,
    /// Contents of the form afterwards (for mutable actions), `None` if the form
    /// was consumed.
    pub after: Option<Vec<Item>>,
}

pub trait Sut {
    fn lens(&self) -> Vec<usize>;
    fn caps(&self) -> Vec<usize>;
    fn push(&mut self, it: Item);
    fn pop(&mut self) -> Option<Item>;
    fn clear(&mut self);
    fn extend(&mut self, src: &mut dyn Iterator<Item = Item>);
    fn get(&self, i: usize) -> Option<Item>;
    fn get_range<'a>(&'a self, r: &RangeSpec) -> Option<Box<dyn It + 'a>>;
    fn get_mut(&mut self, i: usize, new: Option<Item>) -> Option<Item>;
    fn get_mut_range<'a>(&'a mut self, r: &RangeSpec) -> Option<Box<dyn It + 'a>>;
    fn iter<'a>(&'a self) -> Option<Box<dyn It + 'a>>;
    fn iter_mut<'a>(&'a mut self) -> Option<Box<dyn It + 'a>>;
    fn drain<'a>(&'a mut self, r: &RangeSpec) -> Box<dyn It + 'a>;
    fn into_iter(self: Box<Self>) -> Option<Box<dyn It>>;
    /// Build another container form from a copy of the current contents and run
    /// one action on it. `None` if this adapter does not support the form.
    fn snap(&self, form: Form, actions: &[SnapAction]) -> Option<SnapResult>;
    /// The comparing consumers of an iterator (`eq`, `ne`) against: itself; the same items behind an adaptor
    /// whose size hint is not exact (`filter`); one item fewer (`skip(1)`); and `ne` against the filtered twin.
    /// `None` where palette implements no iteration.
    fn iter_cmp(&self) -> Option<[bool; 4]> {
        None
    }
    /// The selecting consumers with a comparator under which many items tie (`sel_rank`): `max_by`, `min_by`,
    /// `max_by_key`, `min_by_key` front to back and `max_by`, `min_by` behind `rev()`. Which of several equal
    /// extrema comes back is fixed by std (the last maximum, the first minimum).
    fn iter_select(&self) -> Option<[Option<Item>; 6]> {
        None
    }
    /// The folding and adapting consumers (`fold_obs`), `k` items in. `None` where palette implements no iteration.
    fn iter_fold(&self, _k: usize) -> Option<Vec<FoldObs>> {
        None
    }
}

/// One observation of `fold_obs`: the items that came out, and the numbers (counts, lengths, flags).
pub type FoldObs = (Vec<Item>, Vec<usize>);

/// The provided methods of `Iterator` / `DoubleEndedIterator` that an implementation may override and that the
/// schedules of `run_sched` do not reach: `reduce` (both argument orders, and behind `rev()`), `try_fold` /
/// `try_rfold` that break after `k + 1` items and the same iterator used further afterwards, `partition`,
/// `step_by`, `skip`, `rev().skip().step_by()`, `zip` with its own reverse, `chain`, `take`, `last`, `count`,
/// `is_sorted_by`. The same function runs over the collection's iterator and over the vector's.
pub fn fold_obs<I, X>(own: impl Fn() -> I, to: impl Fn(X) -> Item + Copy, k: usize) -> Vec<FoldObs>
where
    I: DoubleEndedIterator<Item = X> + ExactSizeIterator,
    X: Copy,
{
    let rank = move |c: &X| sel_rank(&to(*c));
    let opt = |o: Option<X>| (o.map(to).into_iter().collect::<Vec<_>>(), vec![]);
    let mut out: Vec<FoldObs> = Vec::new();
    out.push(opt(own().reduce(|_, b| b)));
    out.push(opt(own().reduce(|a, _| a)));
    out.push(opt(own().rev().reduce(|_, b| b)));
    {
        let mut it = own();
        let mut seen = Vec::new();
        let r = it.try_fold((), |(), c| {
            seen.push(to(c));
            if seen.len() > k { Err(()) } else { Ok(()) }
        });
        let nums = vec![r.is_err() as usize, it.len()];
        seen.extend(it.next().map(to));
        seen.extend(it.next_back().map(to));
        seen.extend(it.map(to));
        out.push((seen, nums));
    }
    {
        let mut it = own();
        let mut seen = Vec::new();
        let r = it.try_rfold((), |(), c| {
            seen.push(to(c));
            if seen.len() > k { Err(()) } else { Ok(()) }
        });
        let nums = vec![r.is_err() as usize, it.len()];
        seen.extend(it.next_back().map(to));
        seen.extend(it.next().map(to));
        seen.extend(it.rev().map(to));
        out.push((seen, nums));
    }
    {
        let (a, b): (Vec<X>, Vec<X>) = own().partition(|c| rank(c) == 0);
        let n = a.len();
        out.push((a.into_iter().chain(b).map(to).collect(), vec![n]));
    }
    out.push((own().step_by(k + 1).map(to).collect(), vec![]));
    out.push((own().skip(k).map(to).collect(), vec![own().skip(k).len()]));
    out.push((own().rev().skip(k).step_by(2).map(to).collect(), vec![]));
    out.push((own().zip(own().rev()).flat_map(|(a, b)| [to(a), to(b)]).collect(), vec![own().zip(own().skip(k)).len()]));
    out.push((own().chain(own()).skip(k).map(to).collect(), vec![own().chain(own()).count()]));
    out.push((own().take(k).map(to).collect(), vec![own().take(k).len()]));
    out.push((own().last().map(to).into_iter().chain(own().rev().last().map(to)).collect(), vec![own().count(), own().rev().count()]));
    out.push((vec![], vec![own().is_sorted_by(|a, b| rank(a) <= rank(b)) as usize, own().rev().is_sorted_by(|a, b| rank(a) <= rank(b)) as usize]));
    out
}

/// A coarse rank of an item: three classes, so that maxima and minima are never unique in a collection of any size.
pub fn sel_rank(x: &Item) -> i64 {
    ((x[0] * 16.0) as i64).rem_euclid(3)
}

pub struct TypeDesc {
    pub name: &'static str,
    pub color: &'static str,
    pub variant: &'static str,
    pub ncomp: usize,
    pub hue_slot: Option<usize>,
    pub has_alpha: bool,
    /// iteration is implemented by palette (false for alpha of another element type)
    pub can_iterate: bool,
    pub with_capacity: fn(usize) -> Box<dyn Sut>,
    pub collect: fn(&mut dyn Iterator<Item = Item>) -> Box<dyn Sut>,
    /// the color type's own `PartialEq` on two items
    pub eq_items: fn(Item, Item) -> bool,
}

// ------------------------------------------------------------------ helpers

/// Conversion between a component field and its inner value: identity for plain
/// components, `from`/`into_inner` for hue newtypes.
pub trait Wrap<Inner> {
    fn wrap(i: Inner) -> Self;
    fn unwrap_(self) -> Inner;
}

macro_rules! wrap_identity {
    ($([$($g:tt)*] $t:ty;)+) => {$(
        impl<$($g)*> Wrap<$t> for $t {
            #[inline] fn wrap(i: $t) -> Self { i }
            #[inline] fn unwrap_(self) -> $t { self }
        }
    )+};
}

wrap_identity! {
    [] f32;
    [] Vec<f32>;
    [] Box<[f32]>;
    [const N: usize] [f32; N];
    ['a] &'a [f32];
    ['a] &'a mut [f32];
    ['a] &'a f32;
    ['a] &'a mut f32;
}

macro_rules! wrap_hue {
    ($($h:ident),+) => {$(
        impl<X> Wrap<X> for palette::$h<X> {
            #[inline] fn wrap(i: X) -> Self { palette::$h::from(i) }
            #[inline] fn unwrap_(self) -> X { self.into_inner() }
        }
    )+};
}

wrap_hue!(RgbHue, LabHue, LuvHue, OklabHue);

impl<X> Wrap<X> for palette::hues::Cam16Hue<X> {
    #[inline]
    fn wrap(i: X) -> Self {
        palette::hues::Cam16Hue::from(i)
    }
    #[inline]
    fn unwrap_(self) -> X {
        self.into_inner()
    }
}

#[inline]
fn uw<I, W: Wrap<I>>(w: W) -> I {
    w.unwrap_()
}

#[inline]
fn wr<I, W: Wrap<I>>(i: I) -> W {
    W::wrap(i)
}

pub fn bound(b: &B) -> Bound<usize> {
    match b {
        B::Inc(x) => Bound::Included(*x),
        B::Exc(x) => Bound::Excluded(*x),
        B::Unb => Bound::Unbounded,
    }
}

/// Dispatch a `RangeSpec` to the concrete std range type, so that every
/// `SliceIndex` / `RangeBounds` implementation is a real monomorphic instance.
macro_rules! with_range {
    ($spec:expr, |$r:ident| $body:expr) => {
        match $spec {
            RangeSpec::Full => {
                let $r = ..;
                $body
            }
            RangeSpec::From(a) => {
                let $r = *a..;
                $body
            }
            RangeSpec::To(b) => {
                let $r = ..*b;
                $body
            }
            RangeSpec::ToIncl(b) => {
                let $r = ..=*b;
                $body
            }
            RangeSpec::Range(a, b) => {
                let $r = *a..*b;
                $body
            }
            RangeSpec::Incl(a, b) => {
                let $r = *a..=*b;
                $body
            }
            RangeSpec::Bounds(a, b) => {
                let $r = ($crate::adapters::bound(a), $crate::adapters::bound(b));
                $body
            }
        }
    };
}



pub(crate) use with_range;

// ------------------------------------------------------------------ per-type adapters

macro_rules! soa {
    ($m:ident, $name:literal, $c:ident, [$($f:ident),+], [$($ph:ident)?], hue: $hue:expr) => {
        pub mod $m {
            use super::*;
            #[allow(unused_imports)]
            use $crate::types::$c as C;

            pub const NCOLOR: usize = [$(stringify!($f)),+].len();

            #[inline]
            fn to_item(c: C<f32>) -> Item {
                let mut a = [0.0f32; 4];
                let mut i = 0;
                $(a[i] = uw::<f32, _>(c.$f); i += 1;)+
                let _ = i;
                a
            }
            #[inline]
            fn to_item_ref(c: &C<&f32>) -> Item {
                // `copied` is palette's own method on a color of references
                to_item(c.copied())
            }
            #[inline]
            fn from_item(a: Item) -> C<f32> {
                let mut i = 0;
                $(let $f = wr(a[i]); i += 1;)+
                let _ = i;
                C::<f32> { $($f,)+ $($ph: PhantomData,)? }
            }
            #[inline]
            fn to_item_a(c: Alpha<C<f32>, f32>) -> Item {
                let mut a = to_item(c.color);
                a[NCOLOR] = c.alpha;
                a
            }
            #[inline]
            fn from_item_a(a: Item) -> Alpha<C<f32>, f32> {
                Alpha { color: from_item(a), alpha: a[NCOLOR] }
            }
            #[inline]
            fn from_item_m(a: Item) -> Alpha<C<f32>, f64> {
                Alpha { color: from_item(a), alpha: a[NCOLOR] as f64 }
            }
            #[inline]
            fn to_item_m(c: Alpha<C<f32>, f64>) -> Item {
                let mut a = to_item(c.color);
                a[NCOLOR] = c.alpha as f32;
                a
            }

            fn vec_lens(v: &C<Vec<f32>>) -> Vec<usize> {
                // read from the public fields, independently of the methods under test
                vec![$(uw::<Vec<f32>, _>(v.$f.clone()).len()),+]
            }
            fn vec_caps(v: &C<Vec<f32>>) -> Vec<usize> {
                // hue fields keep their vector private: capacity unknown there
                vec![$(super::cap_of(&v.$f)),+]
            }
            fn columns(v: &C<Vec<f32>>) -> Vec<Vec<f32>> {
                vec![$(uw::<Vec<f32>, _>(v.$f.clone())),+]
            }
            fn rows(cols: &[Vec<f32>]) -> Vec<Item> {
                let n = cols.iter().map(|c| c.len()).min().unwrap_or(0);
                (0..n)
                    .map(|i| {
                        let mut a = [0.0f32; 4];
                        for (j, c) in cols.iter().enumerate() {
                            a[j] = c[i];
                        }
                        a
                    })
                    .collect()
            }

            // ---------------------------------------------------------- plain
            pub struct Plain(pub C<Vec<f32>>);

            impl Sut for Plain {
                fn lens(&self) -> Vec<usize> { vec_lens(&self.0) }
                fn caps(&self) -> Vec<usize> { vec_caps(&self.0) }
                fn push(&mut self, it: Item) { self.0.push(from_item(it)) }
                fn pop(&mut self) -> Option<Item> { self.0.pop().map(to_item) }
                fn clear(&mut self) { self.0.clear() }
                fn extend(&mut self, src: &mut dyn Iterator<Item = Item>) {
                    self.0.extend(src.map(from_item))
                }
                fn get(&self, i: usize) -> Option<Item> {
                    self.0.get(i).map(|c| to_item_ref(&c))
                }
                fn get_range<'a>(&'a self, r: &RangeSpec) -> Option<Box<dyn It + 'a>> {
                    with_range!(r, |r| self.0.get(r).map(|s| {
                        Box::new(ReadIt(s.into_iter(), |c: C<&f32>| to_item_ref(&c))) as Box<dyn It + 'a>
                    }))
                }
                fn get_mut(&mut self, i: usize, new: Option<Item>) -> Option<Item> {
                    self.0.get_mut(i).map(|mut c| {
                        let old = to_item(c.copied());
                        let via_refs = to_item_ref(&c.as_refs());
                        assert!(old.map(f32::to_bits) == via_refs.map(f32::to_bits), "as_refs differs from copied");
                        if let Some(n) = new { c.set(from_item(n)); }
                        old
                    })
                }
                fn get_mut_range<'a>(&'a mut self, r: &RangeSpec) -> Option<Box<dyn It + 'a>> {
                    with_range!(r, |r| self.0.get_mut(r).map(|s| {
                        Box::new(WriteIt(
                            s.into_iter(),
                            |c: &C<&mut f32>| to_item(c.copied()),
                            |c: &mut C<&mut f32>, n: Item| c.set(from_item(n)),
                        )) as Box<dyn It + 'a>
                    }))
                }
                fn iter<'a>(&'a self) -> Option<Box<dyn It + 'a>> {
                    Some(Box::new(ReadIt(self.0.iter(), |c: C<&f32>| to_item_ref(&c))))
                }
                fn iter_cmp(&self) -> Option<[bool; 4]> {
                    let own = || self.0.clone().into_iter();
                    Some([own().eq(own()), own().eq(own().filter(|_| true)), own().eq(own().skip(1)), own().ne(own().filter(|_| true))])
                }
                fn iter_select(&self) -> Option<[Option<Item>; 6]> {
                    let own = || self.0.clone().into_iter();
                    let rank = |c: &C<f32>| sel_rank(&to_item(*c));
                    Some([
                        own().max_by(|a, b| rank(a).cmp(&rank(b))).map(to_item),
                        own().min_by(|a, b| rank(a).cmp(&rank(b))).map(to_item),
                        own().max_by_key(|c| rank(c)).map(to_item),
                        own().min_by_key(|c| rank(c)).map(to_item),
                        own().rev().max_by(|a, b| rank(a).cmp(&rank(b))).map(to_item),
                        own().rev().min_by(|a, b| rank(a).cmp(&rank(b))).map(to_item),
                    ])
                }
                fn iter_fold(&self, k: usize) -> Option<Vec<FoldObs>> {
                    Some(fold_obs(|| self.0.clone().into_iter(), to_item, k))
                }
                fn iter_mut<'a>(&'a mut self) -> Option<Box<dyn It + 'a>> {
                    Some(Box::new(WriteIt(
                        self.0.iter_mut(),
                        |c: &C<&mut f32>| to_item(c.copied()),
                        |c: &mut C<&mut f32>, n: Item| c.set(from_item(n)),
                    )))
                }
                fn drain<'a>(&'a mut self, r: &RangeSpec) -> Box<dyn It + 'a> {
                    with_range!(r, |r| Box::new(ReadIt(self.0.drain(r), to_item)) as Box<dyn It + 'a>)
                }
                fn into_iter(self: Box<Self>) -> Option<Box<dyn It>> {
                    Some(Box::new(ReadIt(self.0.into_iter(), to_item)))
                }
                fn snap(&self, form: Form, actions: &[SnapAction]) -> Option<SnapResult> {
                    let cols = columns(&self.0);
                    match form {
                        Form::Boxed => {
                            let mut it = cols.into_iter();
                            let mut b: C<Box<[f32]>> = C::<Box<[f32]>> {
                                $($f: wr(it.next().unwrap().into_boxed_slice()),)+
                                $($ph: PhantomData,)?
                            };
                            let mut trace: Vec<Obs> = Vec::new();
 for action in actions {
 let t: Vec<Obs> = match action {
                                SnapAction::Iter(s, e) => run_sched(Box::new(ReadIt((&b).into_iter(), |c: C<&f32>| to_item_ref(&c))), s, *e),
                                SnapAction::IterMethod(s, e) => run_sched(Box::new(ReadIt(b.iter(), |c: C<&f32>| to_item_ref(&c))), s, *e),
                                SnapAction::IterMut(s, e) => run_sched(Box::new(WriteIt(
                                    (&mut b).into_iter(),
                                    |c: &C<&mut f32>| to_item(c.copied()),
                                    |c: &mut C<&mut f32>, n: Item| c.set(from_item(n)),
                                )), s, *e),
                                SnapAction::IntoIter(..) => return None,
                                SnapAction::Get(i) => vec![Obs::Item(b.get(*i).map(|c| to_item_ref(&c)))],
                                SnapAction::GetRange(r, s, e) => with_range!(r, |r| match b.get(r) {
                                    None => vec![Obs::NoRange],
                                    Some(sl) => run_sched(Box::new(ReadIt(sl.into_iter(), |c: C<&f32>| to_item_ref(&c))), s, *e),
                                }),
                                SnapAction::GetMut(i, n) => vec![Obs::Item(b.get_mut(*i).map(|mut c| {
                                    let old = to_item(c.copied());
                                    c.set(from_item(*n));
                                    old
                                }))],
                                SnapAction::GetMutRange(r, s, e) => with_range!(r, |r| match b.get_mut(r) {
                                    None => vec![Obs::NoRange],
                                    Some(sl) => run_sched(Box::new(WriteIt(
                                        sl.into_iter(),
                                        |c: &C<&mut f32>| to_item(c.copied()),
                                        |c: &mut C<&mut f32>, n: Item| c.set(from_item(n)),
                                    )), s, *e),
                                }),
                            };
 trace.extend(t);
 trace.push(Obs::Sep);
 }
 // epilogue: what the form itself shows after the actions (not the storage underneath)
                            trace.push(Obs::Items((&b).into_iter().map(|c: C<&f32>| to_item_ref(&c)).collect()));
                            trace.push(Obs::Len(b.iter().len()));
                            let after = rows(&[$(uw::<Box<[f32]>, _>(b.$f).into_vec()),+]);
                            Some(SnapResult { trace, after: Some(after) })
                        }
                        Form::Slice => {
                            let mut it = cols.iter();
                            let b: C<&[f32]> = C::<&[f32]> {
                                $($f: wr(&it.next().unwrap()[..]),)+
                                $($ph: PhantomData,)?
                            };
                            let mut trace: Vec<Obs> = Vec::new();
 for action in actions {
 let t: Vec<Obs> = match action {
                                SnapAction::Iter(s, e) => run_sched(Box::new(ReadIt((&b).into_iter(), |c: C<&f32>| to_item_ref(&c))), s, *e),
                                SnapAction::IterMethod(s, e) => run_sched(Box::new(ReadIt(b.iter(), |c: C<&f32>| to_item_ref(&c))), s, *e),
                                SnapAction::IntoIter(s, e) => run_sched(Box::new(ReadIt(b.clone().into_iter(), |c: C<&f32>| to_item_ref(&c))), s, *e),
                                SnapAction::Get(i) => vec![Obs::Item(b.get(*i).map(|c| to_item_ref(&c)))],
                                SnapAction::GetRange(r, s, e) => with_range!(r, |r| match b.get(r) {
                                    None => vec![Obs::NoRange],
                                    Some(sl) => run_sched(Box::new(ReadIt(sl.into_iter(), |c: C<&f32>| to_item_ref(&c))), s, *e),
                                }),
                                _ => return None,
                            };
 trace.extend(t);
 trace.push(Obs::Sep);
 }
 // epilogue: what the form itself shows after the actions (not the storage underneath)
                            trace.push(Obs::Items((&b).into_iter().map(|c: C<&f32>| to_item_ref(&c)).collect()));
                            trace.push(Obs::Len(b.iter().len()));
                            Some(SnapResult { trace, after: None })
                        }
                        Form::MutSlice => {
                            let mut cols = cols;
                            let trace = {
                                let mut it = cols.iter_mut();
                                let mut b: C<&mut [f32]> = C::<&mut [f32]> {
                                    $($f: wr(&mut it.next().unwrap()[..]),)+
                                    $($ph: PhantomData,)?
                                };
                                let mut trace: Vec<Obs> = Vec::new();
 for action in actions {
 let t: Vec<Obs> = match action {
                                    SnapAction::Iter(s, e) => run_sched(Box::new(ReadIt((&b).into_iter(), |c: C<&f32>| to_item_ref(&c))), s, *e),
                                    SnapAction::IterMethod(s, e) => run_sched(Box::new(ReadIt(b.iter(), |c: C<&f32>| to_item_ref(&c))), s, *e),
                                    SnapAction::IterMut(s, e) => run_sched(Box::new(WriteIt(
                                        (&mut b).into_iter(),
                                        |c: &C<&mut f32>| to_item(c.copied()),
                                        |c: &mut C<&mut f32>, n: Item| c.set(from_item(n)),
                                    )), s, *e),
                                    SnapAction::IntoIter(s, e) => {
                                        // by value: consumes the form, nothing can follow
                                        let t = run_sched(Box::new(WriteIt(
                                            b.into_iter(),
                                            |c: &C<&mut f32>| to_item(c.copied()),
                                            |c: &mut C<&mut f32>, n: Item| c.set(from_item(n)),
                                        )), s, *e);
                                        trace.extend(t);
                                        return Some(SnapResult { trace, after: Some(rows(&cols)) });
                                    }
                                    SnapAction::Get(i) => vec![Obs::Item(b.get(*i).map(|c| to_item_ref(&c)))],
                                    SnapAction::GetRange(r, s, e) => with_range!(r, |r| match b.get(r) {
                                        None => vec![Obs::NoRange],
                                        Some(sl) => run_sched(Box::new(ReadIt(sl.into_iter(), |c: C<&f32>| to_item_ref(&c))), s, *e),
                                    }),
                                    SnapAction::GetMut(i, n) => vec![Obs::Item(b.get_mut(*i).map(|mut c| {
                                        let old = to_item(c.copied());
                                        c.set(from_item(*n));
                                        old
                                    }))],
                                    SnapAction::GetMutRange(r, s, e) => with_range!(r, |r| match b.get_mut(r) {
                                        None => vec![Obs::NoRange],
                                        Some(sl) => run_sched(Box::new(WriteIt(
                                            sl.into_iter(),
                                            |c: &C<&mut f32>| to_item(c.copied()),
                                            |c: &mut C<&mut f32>, n: Item| c.set(from_item(n)),
                                        )), s, *e),
                                    }),
                                };
 trace.extend(t);
 trace.push(Obs::Sep);
 }
 // epilogue: what the form itself shows after the actions (not the storage underneath)
                            trace.push(Obs::Items((&b).into_iter().map(|c: C<&f32>| to_item_ref(&c)).collect()));
                            trace.push(Obs::Len(b.iter().len()));
 trace
                            };
                            Some(SnapResult { trace, after: Some(rows(&cols)) })
                        }
                        Form::Array(n) => match n {
                            0 => snap_array::<0>(&cols, actions),
                            1 => snap_array::<1>(&cols, actions),
                            2 => snap_array::<2>(&cols, actions),
                            5 => snap_array::<5>(&cols, actions),
                            _ => None,
                        },
                    }
                }
            }

            fn snap_array<const N: usize>(cols: &[Vec<f32>], actions: &[SnapAction]) -> Option<SnapResult> {
                                    let mut it = cols.iter();
                                    let mut b: C<[f32; N]> = C::<[f32; N]> {
                                        $($f: wr(<[f32; N]>::try_from(&it.next().unwrap()[..N]).unwrap()),)+
                                        $($ph: PhantomData,)?
                                    };
                                    let consumed = false;
                                    let mut trace: Vec<Obs> = Vec::new();
 for action in actions {
 let t: Vec<Obs> = match action {
                                        SnapAction::Iter(s, e) => run_sched(Box::new(ReadIt((&b).into_iter(), |c: C<&f32>| to_item_ref(&c))), s, *e),
                                        SnapAction::IterMethod(s, e) => run_sched(Box::new(ReadIt(b.iter(), |c: C<&f32>| to_item_ref(&c))), s, *e),
                                        SnapAction::IterMut(s, e) => run_sched(Box::new(WriteIt(
                                            (&mut b).into_iter(),
                                            |c: &C<&mut f32>| to_item(c.copied()),
                                            |c: &mut C<&mut f32>, n: Item| c.set(from_item(n)),
                                        )), s, *e),
                                        SnapAction::IntoIter(s, e) => {
                                            let t = run_sched(Box::new(ReadIt(b.into_iter(), to_item)), s, *e);
                                            trace.extend(t);
                                            return Some(SnapResult { trace, after: None });
                                        }
                                        SnapAction::Get(i) => vec![Obs::Item(b.get(*i).map(|c| to_item_ref(&c)))],
                                        SnapAction::GetRange(r, s, e) => with_range!(r, |r| match b.get(r) {
                                            None => vec![Obs::NoRange],
                                            Some(sl) => run_sched(Box::new(ReadIt(sl.into_iter(), |c: C<&f32>| to_item_ref(&c))), s, *e),
                                        }),
                                        SnapAction::GetMut(i, n) => vec![Obs::Item(b.get_mut(*i).map(|mut c| {
                                            let old = to_item(c.copied());
                                            c.set(from_item(*n));
                                            old
                                        }))],
                                        SnapAction::GetMutRange(r, s, e) => with_range!(r, |r| match b.get_mut(r) {
                                            None => vec![Obs::NoRange],
                                            Some(sl) => run_sched(Box::new(WriteIt(
                                                sl.into_iter(),
                                                |c: &C<&mut f32>| to_item(c.copied()),
                                                |c: &mut C<&mut f32>, n: Item| c.set(from_item(n)),
                                            )), s, *e),
                                        }),
                                    };
 trace.extend(t);
 trace.push(Obs::Sep);
 }
 // epilogue: what the form itself shows after the actions (not the storage underneath)
                            trace.push(Obs::Items((&b).into_iter().map(|c: C<&f32>| to_item_ref(&c)).collect()));
                            trace.push(Obs::Len(b.iter().len()));
                                    let after = if consumed { None } else {
                                        Some(rows(&[$(uw::<[f32; N], _>(b.$f).to_vec()),+]))
                                    };
                                    Some(SnapResult { trace, after })
            }

            // ---------------------------------------------------------- with alpha (same element type)
            pub struct WithAlpha(pub Alpha<C<Vec<f32>>, Vec<f32>>);

            type AR<'x> = Alpha<C<&'x f32>, &'x f32>;
            type AM<'x> = Alpha<C<&'x mut f32>, &'x mut f32>;

            fn rd_a(c: &AM<'_>) -> Item { to_item_a(c.copied()) }
            fn wr_a(c: &mut AM<'_>, n: Item) { c.set(from_item_a(n)) }
            fn rf_a(c: AR<'_>) -> Item { to_item_a(c.copied()) }

            impl Sut for WithAlpha {
                fn lens(&self) -> Vec<usize> { let mut l = vec_lens(&self.0.color); l.push(self.0.alpha.len()); l }
                fn caps(&self) -> Vec<usize> { let mut l = vec_caps(&self.0.color); l.push(self.0.alpha.capacity()); l }
                fn push(&mut self, it: Item) { self.0.push(from_item_a(it)) }
                fn pop(&mut self) -> Option<Item> { self.0.pop().map(to_item_a) }
                fn clear(&mut self) { self.0.clear() }
                fn extend(&mut self, src: &mut dyn Iterator<Item = Item>) {
                    self.0.extend(src.map(from_item_a))
                }
                fn get(&self, i: usize) -> Option<Item> {
                    self.0.get(i).map(rf_a)
                }
                fn get_range<'a>(&'a self, r: &RangeSpec) -> Option<Box<dyn It + 'a>> {
                    with_range!(r, |r| self.0.get(r).map(|s| {
                        Box::new(ReadIt(s.into_iter(), rf_a)) as Box<dyn It + 'a>
                    }))
                }
                fn get_mut(&mut self, i: usize, new: Option<Item>) -> Option<Item> {
                    self.0.get_mut(i).map(|mut c| {
                        let old = to_item_a(c.copied());
                        let via_refs = to_item_a(c.as_refs().copied());
                        assert!(old.map(f32::to_bits) == via_refs.map(f32::to_bits), "as_refs differs from copied");
                        if let Some(n) = new { c.set(from_item_a(n)); }
                        old
                    })
                }
                fn get_mut_range<'a>(&'a mut self, r: &RangeSpec) -> Option<Box<dyn It + 'a>> {
                    with_range!(r, |r| self.0.get_mut(r).map(|s| {
                        Box::new(WriteIt(s.into_iter(), rd_a, wr_a)) as Box<dyn It + 'a>
                    }))
                }
                fn iter<'a>(&'a self) -> Option<Box<dyn It + 'a>> {
                    Some(Box::new(ReadIt(self.0.iter(), rf_a)))
                }
                fn iter_cmp(&self) -> Option<[bool; 4]> {
                    let own = || self.0.clone().into_iter();
                    Some([own().eq(own()), own().eq(own().filter(|_| true)), own().eq(own().skip(1)), own().ne(own().filter(|_| true))])
                }
                fn iter_select(&self) -> Option<[Option<Item>; 6]> {
                    let own = || self.0.clone().into_iter();
                    let rank = |c: &Alpha<C<f32>, f32>| sel_rank(&to_item_a(*c));
                    Some([
                        own().max_by(|a, b| rank(a).cmp(&rank(b))).map(to_item_a),
                        own().min_by(|a, b| rank(a).cmp(&rank(b))).map(to_item_a),
                        own().max_by_key(|c| rank(c)).map(to_item_a),
                        own().min_by_key(|c| rank(c)).map(to_item_a),
                        own().rev().max_by(|a, b| rank(a).cmp(&rank(b))).map(to_item_a),
                        own().rev().min_by(|a, b| rank(a).cmp(&rank(b))).map(to_item_a),
                    ])
                }
                fn iter_fold(&self, k: usize) -> Option<Vec<FoldObs>> {
                    Some(fold_obs(|| self.0.clone().into_iter(), to_item_a, k))
                }
                fn iter_mut<'a>(&'a mut self) -> Option<Box<dyn It + 'a>> {
                    Some(Box::new(WriteIt(self.0.iter_mut(), rd_a, wr_a)))
                }
                fn drain<'a>(&'a mut self, r: &RangeSpec) -> Box<dyn It + 'a> {
                    with_range!(r, |r| Box::new(ReadIt(self.0.drain(r), to_item_a)) as Box<dyn It + 'a>)
                }
                fn into_iter(self: Box<Self>) -> Option<Box<dyn It>> {
                    Some(Box::new(ReadIt(self.0.into_iter(), to_item_a)))
                }
                fn snap(&self, form: Form, actions: &[SnapAction]) -> Option<SnapResult> {
                    let mut cols = columns(&self.0.color);
                    let mut acol = self.0.alpha.clone();
                    match form {
                        Form::Boxed => {
                            let mut it = cols.into_iter();
                            let mut b: Alpha<C<Box<[f32]>>, Box<[f32]>> = Alpha {
                                color: C::<Box<[f32]>> {
                                    $($f: wr(it.next().unwrap().into_boxed_slice()),)+
                                    $($ph: PhantomData,)?
                                },
                                alpha: acol.into_boxed_slice(),
                            };
                            let mut trace: Vec<Obs> = Vec::new();
 for action in actions {
 let t: Vec<Obs> = match action {
                                SnapAction::Iter(s, e) => run_sched(Box::new(ReadIt((&b).into_iter(), rf_a)), s, *e),
                                SnapAction::IterMethod(s, e) => run_sched(Box::new(ReadIt(b.iter(), rf_a)), s, *e),
                                SnapAction::IterMut(s, e) => run_sched(Box::new(WriteIt((&mut b).into_iter(), rd_a, wr_a)), s, *e),
                                SnapAction::IntoIter(..) => return None,
                                SnapAction::Get(i) => vec![Obs::Item(b.get(*i).map(rf_a))],
                                SnapAction::GetRange(r, s, e) => with_range!(r, |r| match b.get(r) {
                                    None => vec![Obs::NoRange],
                                    Some(sl) => run_sched(Box::new(ReadIt(sl.into_iter(), rf_a)), s, *e),
                                }),
                                SnapAction::GetMut(i, n) => vec![Obs::Item(b.get_mut(*i).map(|mut c| {
                                    let old = to_item_a(c.copied());
                                    c.set(from_item_a(*n));
                                    old
                                }))],
                                SnapAction::GetMutRange(r, s, e) => with_range!(r, |r| match b.get_mut(r) {
                                    None => vec![Obs::NoRange],
                                    Some(sl) => run_sched(Box::new(WriteIt(sl.into_iter(), rd_a, wr_a)), s, *e),
                                }),
                            };
 trace.extend(t);
 trace.push(Obs::Sep);
 }
 // epilogue: what the form itself shows after the actions (not the storage underneath)
                            trace.push(Obs::Items((&b).into_iter().map(rf_a).collect()));
                            trace.push(Obs::Len(b.iter().len()));
                            let mut all = vec![$(uw::<Box<[f32]>, _>(b.color.$f).into_vec()),+];
                            all.push(b.alpha.into_vec());
                            Some(SnapResult { trace, after: Some(rows(&all)) })
                        }
                        Form::Slice => {
                            let mut it = cols.iter();
                            let b: Alpha<C<&[f32]>, &[f32]> = Alpha {
                                color: C::<&[f32]> {
                                    $($f: wr(&it.next().unwrap()[..]),)+
                                    $($ph: PhantomData,)?
                                },
                                alpha: &acol[..],
                            };
                            let mut trace: Vec<Obs> = Vec::new();
 for action in actions {
 let t: Vec<Obs> = match action {
                                SnapAction::Iter(s, e) => run_sched(Box::new(ReadIt((&b).into_iter(), rf_a)), s, *e),
                                SnapAction::IterMethod(s, e) => run_sched(Box::new(ReadIt(b.iter(), rf_a)), s, *e),
                                SnapAction::IntoIter(s, e) => run_sched(Box::new(ReadIt(b.clone().into_iter(), rf_a)), s, *e),
                                SnapAction::Get(i) => vec![Obs::Item(b.get(*i).map(rf_a))],
                                SnapAction::GetRange(r, s, e) => with_range!(r, |r| match b.get(r) {
                                    None => vec![Obs::NoRange],
                                    Some(sl) => run_sched(Box::new(ReadIt(sl.into_iter(), rf_a)), s, *e),
                                }),
                                _ => return None,
                            };
 trace.extend(t);
 trace.push(Obs::Sep);
 }
 // epilogue: what the form itself shows after the actions (not the storage underneath)
                            trace.push(Obs::Items((&b).into_iter().map(rf_a).collect()));
                            trace.push(Obs::Len(b.iter().len()));
                            Some(SnapResult { trace, after: None })
                        }
                        Form::MutSlice => {
                            let trace = {
                                let mut it = cols.iter_mut();
                                let mut b: Alpha<C<&mut [f32]>, &mut [f32]> = Alpha {
                                    color: C::<&mut [f32]> {
                                        $($f: wr(&mut it.next().unwrap()[..]),)+
                                        $($ph: PhantomData,)?
                                    },
                                    alpha: &mut acol[..],
                                };
                                let mut trace: Vec<Obs> = Vec::new();
 for action in actions {
 let t: Vec<Obs> = match action {
                                    SnapAction::Iter(s, e) => run_sched(Box::new(ReadIt((&b).into_iter(), rf_a)), s, *e),
                                    SnapAction::IterMethod(s, e) => run_sched(Box::new(ReadIt(b.iter(), rf_a)), s, *e),
                                    SnapAction::IterMut(s, e) => run_sched(Box::new(WriteIt((&mut b).into_iter(), rd_a, wr_a)), s, *e),
                                    SnapAction::IntoIter(s, e) => {
                                        let t = run_sched(Box::new(WriteIt(b.into_iter(), rd_a, wr_a)), s, *e);
                                        trace.extend(t);
                                        cols.push(acol);
                                        return Some(SnapResult { trace, after: Some(rows(&cols)) });
                                    }
                                    SnapAction::Get(i) => vec![Obs::Item(b.get(*i).map(rf_a))],
                                    SnapAction::GetRange(r, s, e) => with_range!(r, |r| match b.get(r) {
                                        None => vec![Obs::NoRange],
                                        Some(sl) => run_sched(Box::new(ReadIt(sl.into_iter(), rf_a)), s, *e),
                                    }),
                                    SnapAction::GetMut(i, n) => vec![Obs::Item(b.get_mut(*i).map(|mut c| {
                                        let old = to_item_a(c.copied());
                                        c.set(from_item_a(*n));
                                        old
                                    }))],
                                    SnapAction::GetMutRange(r, s, e) => with_range!(r, |r| match b.get_mut(r) {
                                        None => vec![Obs::NoRange],
                                        Some(sl) => run_sched(Box::new(WriteIt(sl.into_iter(), rd_a, wr_a)), s, *e),
                                    }),
                                };
 trace.extend(t);
 trace.push(Obs::Sep);
 }
 // epilogue: what the form itself shows after the actions (not the storage underneath)
                            trace.push(Obs::Items((&b).into_iter().map(rf_a).collect()));
                            trace.push(Obs::Len(b.iter().len()));
 trace
                            };
                            cols.push(acol);
                            Some(SnapResult { trace, after: Some(rows(&cols)) })
                        }
                        Form::Array(n) => match n {
                            0 => snap_array_a::<0>(&cols, &acol, actions),
                            1 => snap_array_a::<1>(&cols, &acol, actions),
                            2 => snap_array_a::<2>(&cols, &acol, actions),
                            5 => snap_array_a::<5>(&cols, &acol, actions),
                            _ => None,
                        },
                    }
                }
            }

            fn snap_array_a<const N: usize>(cols: &[Vec<f32>], acol: &[f32], actions: &[SnapAction]) -> Option<SnapResult> {
                                    let mut it = cols.iter();
                                    let mut b: Alpha<C<[f32; N]>, [f32; N]> = Alpha {
                                        color: C::<[f32; N]> {
                                            $($f: wr(<[f32; N]>::try_from(&it.next().unwrap()[..N]).unwrap()),)+
                                            $($ph: PhantomData,)?
                                        },
                                        alpha: <[f32; N]>::try_from(&acol[..N]).unwrap(),
                                    };
                                    let consumed = false;
                                    let mut trace: Vec<Obs> = Vec::new();
 for action in actions {
 let t: Vec<Obs> = match action {
                                        SnapAction::Iter(s, e) => run_sched(Box::new(ReadIt((&b).into_iter(), rf_a)), s, *e),
                                        SnapAction::IterMethod(s, e) => run_sched(Box::new(ReadIt(b.iter(), rf_a)), s, *e),
                                        SnapAction::IterMut(s, e) => run_sched(Box::new(WriteIt((&mut b).into_iter(), rd_a, wr_a)), s, *e),
                                        SnapAction::IntoIter(s, e) => {
                                            let t = run_sched(Box::new(ReadIt(b.into_iter(), to_item_a)), s, *e);
                                            trace.extend(t);
                                            return Some(SnapResult { trace, after: None });
                                        }
                                        SnapAction::Get(i) => vec![Obs::Item(b.get(*i).map(rf_a))],
                                        SnapAction::GetRange(r, s, e) => with_range!(r, |r| match b.get(r) {
                                            None => vec![Obs::NoRange],
                                            Some(sl) => run_sched(Box::new(ReadIt(sl.into_iter(), rf_a)), s, *e),
                                        }),
                                        SnapAction::GetMut(i, n) => vec![Obs::Item(b.get_mut(*i).map(|mut c| {
                                            let old = to_item_a(c.copied());
                                            c.set(from_item_a(*n));
                                            old
                                        }))],
                                        SnapAction::GetMutRange(r, s, e) => with_range!(r, |r| match b.get_mut(r) {
                                            None => vec![Obs::NoRange],
                                            Some(sl) => run_sched(Box::new(WriteIt(sl.into_iter(), rd_a, wr_a)), s, *e),
                                        }),
                                    };
 trace.extend(t);
 trace.push(Obs::Sep);
 }
 // epilogue: what the form itself shows after the actions (not the storage underneath)
                            trace.push(Obs::Items((&b).into_iter().map(rf_a).collect()));
                            trace.push(Obs::Len(b.iter().len()));
                                    let after = if consumed { None } else {
                                        let mut all = vec![$(uw::<[f32; N], _>(b.color.$f).to_vec()),+];
                                        all.push(b.alpha.to_vec());
                                        Some(rows(&all))
                                    };
                                    Some(SnapResult { trace, after })
            }

            // ---------------------------------------------------------- alpha of another element type
            pub struct MixedAlpha(pub Alpha<C<Vec<f32>>, Vec<f64>>);

            impl AnswerM for Alpha<C<f32>, f64> {
                fn into_item_m(self) -> Item { to_item_m(self) }
                fn from_item_m(a: Item) -> Self { from_item_m(a) }
            }
            impl AnswerM for C<f32> {
                // the color collection answered instead of the alpha wrapper: alpha is lost
                fn into_item_m(self) -> Item {
                    let mut a = to_item(self);
                    a[NCOLOR] = f32::NAN;
                    a
                }
                fn from_item_m(a: Item) -> Self { from_item(a) }
            }
            #[allow(dead_code)]
            trait MixedFallback: Sized {
                fn with_capacity(n: usize) -> Self;
                fn push(&mut self, c: Alpha<C<f32>, f64>);
            }
            impl MixedFallback for Alpha<C<Vec<f32>>, Vec<f64>> {
                fn with_capacity(_n: usize) -> Self { core::iter::empty::<Alpha<C<f32>, f64>>().collect() }
                fn push(&mut self, c: Alpha<C<f32>, f64>) { self.extend(core::iter::once(c)) }
            }

            impl Sut for MixedAlpha {
                fn lens(&self) -> Vec<usize> { let mut l = vec_lens(&self.0.color); l.push(self.0.alpha.len()); l }
                fn caps(&self) -> Vec<usize> { let mut l = vec_caps(&self.0.color); l.push(self.0.alpha.capacity()); l }
                fn push(&mut self, it: Item) { self.0.push(from_item_m(it)) }
                fn pop(&mut self) -> Option<Item> { self.0.pop().map(AnswerM::into_item_m) }
                fn clear(&mut self) { self.0.clear() }
                fn extend(&mut self, src: &mut dyn Iterator<Item = Item>) {
                    self.0.extend(src.map(from_item_m))
                }
                fn get(&self, i: usize) -> Option<Item> {
                    // (either answer, see `AnswerM`)
                    self.0.get(i).map(|c| c.copied().into_item_m())
                }
                fn get_range<'a>(&'a self, r: &RangeSpec) -> Option<Box<dyn It + 'a>> {
                    // palette offers no iterator for mixed element types; read the
                    // returned color-of-slices through its public fields
                    with_range!(r, |r| self.0.get(r).map(|s| {
                        let cols: Vec<&[f32]> = vec![$(uw::<&[f32], _>(s.color.$f)),+];
                        let alpha: &[f64] = s.alpha;
                        let n = cols.iter().map(|c| c.len()).chain(Some(alpha.len())).min().unwrap_or(0);
                        let uneven = cols.iter().any(|c| c.len() != n) || alpha.len() != n;
                        let items: Vec<Item> = (0..n).map(|i| {
                            let mut a = [0.0f32; 4];
                            for (j, c) in cols.iter().enumerate() { a[j] = c[i]; }
                            a[NCOLOR] = alpha[i] as f32;
                            if uneven { a[3] = f32::NAN; }
                            a
                        }).collect();
                        Box::new(ReadIt(items.into_iter(), |x| x)) as Box<dyn It + 'a>
                    }))
                }
                fn get_mut(&mut self, i: usize, new: Option<Item>) -> Option<Item> {
                    self.0.get_mut(i).map(|mut c| {
                        let old = c.copied().into_item_m();
                        if let Some(n) = new { c.set(AnswerM::from_item_m(n)); }
                        old
                    })
                }
                fn get_mut_range<'a>(&'a mut self, r: &RangeSpec) -> Option<Box<dyn It + 'a>> {
                    // no palette iterator for mixed element types: the returned color-of-mutable-slices is
                    // split into per-element handles through its public fields; what is judged is which
                    // elements the ranged get_mut hands out (colors and alpha) and that writes land there
                    with_range!(r, |r| self.0.get_mut(r).map(|s| {
                        let cols: Vec<&'a mut [f32]> = vec![$(uw::<&mut [f32], _>(s.color.$f)),+];
                        let alpha: &'a mut [f64] = s.alpha;
                        let n = cols.iter().map(|c| c.len()).chain(Some(alpha.len())).min().unwrap_or(0);
                        let uneven = cols.iter().any(|c| c.len() != n) || alpha.len() != n;
                        let mut col_its: Vec<std::slice::IterMut<'a, f32>> = cols.into_iter().map(|c| c.iter_mut()).collect();
                        let mut handles: Vec<(Vec<&'a mut f32>, &'a mut f64, bool)> = Vec::with_capacity(n);
                        for a in alpha.iter_mut().take(n) {
                            handles.push((col_its.iter_mut().map(|c| c.next().unwrap()).collect(), a, uneven));
                        }
                        Box::new(WriteIt(
                            handles.into_iter(),
                            |h: &(Vec<&mut f32>, &mut f64, bool)| {
                                let mut a = [0.0f32; 4];
                                for (j, c) in h.0.iter().enumerate() { a[j] = **c; }
                                a[NCOLOR] = *h.1 as f32;
                                if h.2 { a[3] = f32::NAN; }
                                a
                            },
                            |h: &mut (Vec<&mut f32>, &mut f64, bool), n: Item| {
                                for (j, c) in h.0.iter_mut().enumerate() { **c = n[j]; }
                                *h.1 = n[NCOLOR] as f64;
                            },
                        )) as Box<dyn It + 'a>
                    }))
                }
                fn iter<'a>(&'a self) -> Option<Box<dyn It + 'a>> { None }
                fn iter_mut<'a>(&'a mut self) -> Option<Box<dyn It + 'a>> { None }
                fn drain<'a>(&'a mut self, r: &RangeSpec) -> Box<dyn It + 'a> {
                    with_range!(r, |r| read_answers(self.0.drain(r)))
                }
                fn into_iter(self: Box<Self>) -> Option<Box<dyn It>> { None }
                fn snap(&self, _form: Form, _actions: &[SnapAction]) -> Option<SnapResult> { None }
            }

            fn eq_plain(a: Item, b: Item) -> bool { from_item(a) == from_item(b) }
            fn eq_alpha(a: Item, b: Item) -> bool { from_item_a(a) == from_item_a(b) }
            fn eq_mixed(a: Item, b: Item) -> bool { from_item_m(a) == from_item_m(b) }

            pub static DESCS: [TypeDesc; 3] = [
                TypeDesc {
                    name: $name, color: $name, variant: "plain",
                    ncomp: NCOLOR, hue_slot: $hue, has_alpha: false, can_iterate: true,
                    with_capacity: |n| Box::new(Plain(C::<Vec<f32>>::with_capacity(n))),
                    collect: |src| Box::new(Plain(src.map(from_item).collect())),
                    eq_items: eq_plain,
                },
                TypeDesc {
                    name: concat!($name, "+alpha"), color: $name, variant: "alpha",
                    ncomp: NCOLOR + 1, hue_slot: $hue, has_alpha: true, can_iterate: true,
                    with_capacity: |n| Box::new(WithAlpha(Alpha::<C<Vec<f32>>, Vec<f32>>::with_capacity(n))),
                    collect: |src| Box::new(WithAlpha(src.map(from_item_a).collect())),
                    eq_items: eq_alpha,
                },
                TypeDesc {
                    name: concat!($name, "+alpha64"), color: $name, variant: "alpha64",
                    ncomp: NCOLOR + 1, hue_slot: $hue, has_alpha: true, can_iterate: false,
                    with_capacity: |n| Box::new(MixedAlpha(Alpha::<C<Vec<f32>>, Vec<f64>>::with_capacity(n))),
                    collect: |src| Box::new(MixedAlpha(src.map(from_item_m).collect())),
                    eq_items: eq_mixed,
                },
            ];
        }
    };
}

/// Capacity of a component field. Plain `Vec<f32>` fields report it directly;
/// hue fields wrap the vector privately, so the capacity is not observable and
/// `usize::MAX` ("unknown") is returned.
pub trait CapOf {
    fn cap(&self) -> usize;
}
impl CapOf for Vec<f32> {
    fn cap(&self) -> usize {
        self.capacity()
    }
}
macro_rules! cap_hue {
    ($($h:path),+) => {$(
        impl CapOf for $h {
            fn cap(&self) -> usize { usize::MAX }
        }
    )+};
}
cap_hue!(
    palette::RgbHue<Vec<f32>>,
    palette::LabHue<Vec<f32>>,
    palette::LuvHue<Vec<f32>>,
    palette::OklabHue<Vec<f32>>,
    palette::hues::Cam16Hue<Vec<f32>>
);
pub fn cap_of<T: CapOf>(t: &T) -> usize {
    t.cap()
}

soa!(rgb, "Rgb", RgbC, [red, green, blue], [standard], hue: None);
soa!(luma, "Luma", LumaC, [luma], [standard], hue: None);
soa!(xyz, "Xyz", XyzC, [x, y, z], [white_point], hue: None);
soa!(yxy, "Yxy", YxyC, [x, y, luma], [white_point], hue: None);
soa!(lab, "Lab", LabC, [l, a, b], [white_point], hue: None);
soa!(luv, "Luv", LuvC, [l, u, v], [white_point], hue: None);
soa!(oklab, "Oklab", OklabC, [l, a, b], [], hue: None);
soa!(lms, "Lms", LmsC, [long, medium, short], [meta], hue: None);
soa!(cam16ucsjab, "Cam16UcsJab", Cam16UcsJabC, [lightness, a, b], [], hue: None);
soa!(hsl, "Hsl", HslC, [hue, saturation, lightness], [standard], hue: Some(0));
soa!(hsv, "Hsv", HsvC, [hue, saturation, value], [standard], hue: Some(0));
soa!(hwb, "Hwb", HwbC, [hue, whiteness, blackness], [standard], hue: Some(0));
soa!(hsluv, "Hsluv", HsluvC, [hue, saturation, l], [white_point], hue: Some(0));
soa!(lch, "Lch", LchC, [l, chroma, hue], [white_point], hue: Some(2));
soa!(lchuv, "Lchuv", LchuvC, [l, chroma, hue], [white_point], hue: Some(2));
soa!(oklch, "Oklch", OklchC, [l, chroma, hue], [], hue: Some(2));
soa!(okhsl, "Okhsl", OkhslC, [hue, saturation, lightness], [], hue: Some(0));
soa!(okhsv, "Okhsv", OkhsvC, [hue, saturation, value], [], hue: Some(0));
soa!(okhwb, "Okhwb", OkhwbC, [hue, whiteness, blackness], [], hue: Some(0));
soa!(cam16ucsjmh, "Cam16UcsJmh", Cam16UcsJmhC, [lightness, colorfulness, hue], [], hue: Some(2));
soa!(cam16jch, "Cam16Jch", Cam16JchC, [lightness, chroma, hue], [], hue: Some(2));
soa!(cam16jmh, "Cam16Jmh", Cam16JmhC, [lightness, colorfulness, hue], [], hue: Some(2));
soa!(cam16jsh, "Cam16Jsh", Cam16JshC, [lightness, saturation, hue], [], hue: Some(2));
soa!(cam16qch, "Cam16Qch", Cam16QchC, [brightness, chroma, hue], [], hue: Some(2));
soa!(cam16qmh, "Cam16Qmh", Cam16QmhC, [brightness, colorfulness, hue], [], hue: Some(2));
soa!(cam16qsh, "Cam16Qsh", Cam16QshC, [brightness, saturation, hue], [], hue: Some(2));

pub fn all_types() -> Vec<&'static TypeDesc> {
    let mut v: Vec<&'static TypeDesc> = Vec::new();
    macro_rules! add {
        ($($m:ident),+) => {$( for d in $m::DESCS.iter() { v.push(d); } )+};
    }
    add!(
        rgb, luma, xyz, yxy, lab, luv, oklab, lms, cam16ucsjab, hsl, hsv, hwb, hsluv, lch, lchuv, oklch, okhsl,
        okhsv, okhwb, cam16ucsjmh, cam16jch, cam16jmh, cam16jsh, cam16qch, cam16qmh, cam16qsh
    );
    v
}
