//! C18 — struct-of-arrays color collections behave like a vector of colors.
//!
//! System under test: palette's real `Color<Vec<T>>`, `Alpha<Color<Vec<T>>, Vec<A>>`,
//! `Box<[T]>`, `[T; N]`, `&[T]`, `&mut [T]` forms, for every color type that
//! instantiates the struct-of-arrays macros.
//! Reference model: a plain `Vec<[f32; 4]>` subjected to the same history.
//! Faults: cancel (early drop) and leak (`mem::forget`) of drains and iterators,
//! unwinding panics from the caller-supplied source of `extend`/`collect`, an
//! unwinding panic inside an `iter_mut` loop, and std-contract panics for
//! out-of-range drains.

pub mod adapters;
pub mod types;


use simcore::core::{catch, inject_panic, shrink_list, Caught, Ctx, Tier, World, WorldInfo};
use simcore::ev;
use simcore::rng::Rng;
use adapters::{all_types, It, ReadIt, Sut, TypeDesc, WriteIt};
use serde::{Deserialize, Serialize};

pub type Item = [f32; 4];

#[derive(Clone, Copy, Debug, Serialize, Deserialize, Hash, PartialEq, Eq)]
pub enum B {
    Inc(usize),
    Exc(usize),
    Unb,
}

/// A concrete range, resolved against the current length at execution time.
#[derive(Clone, Debug, Serialize, Deserialize, Hash, PartialEq, Eq)]
pub enum RangeSpec {
    Full,
    From(usize),
    To(usize),
    ToIncl(usize),
    Range(usize, usize),
    Incl(usize, usize),
    Bounds(B, B),
}

/// A range in plan form: relative to the length the container has when the op runs.
#[derive(Clone, Copy, Debug, Serialize, Deserialize, Hash, PartialEq, Eq)]
pub struct RangeGen {
    /// 0 Full, 1 From, 2 To, 3 ToIncl, 4 Range, 5 Incl, 6 Bounds
    pub kind: u8,
    pub a: u16,
    pub b: u16,
    /// 0 in range; 1 inverted; 2 end past the length; 3 huge end; 4 start past the length
    pub mode: u8,
    /// Bounds variant: 0..9 picks (start bound kind, end bound kind)
    pub bk: u8,
}

impl RangeGen {
    pub fn resolve(&self, len: usize) -> RangeSpec {
        let m = len + 1;
        let (mut a, mut b) = (self.a as usize % m, self.b as usize % m);
        if a > b {
            core::mem::swap(&mut a, &mut b);
        }
        match self.mode {
            1 => core::mem::swap(&mut a, &mut b),
            2 => b = len + 1 + (self.b as usize % 3),
            3 => b = usize::MAX - (self.b as usize % 2),
            4 => {
                a = len + 1 + (self.a as usize % 3);
                b = a + (self.b as usize % 2);
            }
            _ => {}
        }
        match self.kind {
            0 => RangeSpec::Full,
            1 => RangeSpec::From(a),
            2 => RangeSpec::To(b),
            3 => RangeSpec::ToIncl(b),
            4 => RangeSpec::Range(a, b),
            5 => RangeSpec::Incl(a, b),
            _ => {
                let s = match self.bk % 3 {
                    0 => B::Inc(a),
                    1 => B::Exc(a),
                    _ => B::Unb,
                };
                let e = match (self.bk / 3) % 3 {
                    0 => B::Inc(b),
                    1 => B::Exc(b),
                    _ => B::Unb,
                };
                RangeSpec::Bounds(s, e)
            }
        }
    }
}

#[derive(Clone, Copy, Debug, Serialize, Deserialize, Hash, PartialEq, Eq)]
pub enum Step {
    Next,
    NextBack,
    Len,
    SizeHint,
    /// `Iterator::nth` / `DoubleEndedIterator::nth_back` (what `skip`, `step_by` and their `rev()` forms call)
    Nth(u8),
    NthBack(u8),
    /// the searching methods, which an iterator may override as well; the predicate is a fixed function of the
    /// item's value and the selector (`sel_pred`), the same for the collection and for the model
    Find(u8),
    RFind(u8),
    Position(u8),
    RPosition(u8),
    Any(u8),
    All(u8),
    /// mutable iterators: overwrite the next / last element with a fresh item
    NextSet(u32),
    NextBackSet(u32),
    /// fault: the caller's loop body panics while the iterator is alive
    Panic,
}

#[derive(Clone, Copy, Debug, Serialize, Deserialize, Hash, PartialEq, Eq)]
pub enum End {
    Drop,
    Forget,
    Count,
    /// consume everything that is left, front to back
    Exhaust,
    /// `last()`
    Last,
    /// everything that is left through `fold` / `rfold` / `for_each`
    Fold,
    RFold,
    ForEach,
    /// everything that is left through `rev()` (if `rev`), then `skip(skip)`, then `step_by(step)` (if > 1)
    Adapt { rev: bool, skip: u8, step: u8 },
}

#[derive(Clone, Debug, PartialEq)]
pub enum Obs {
    Item(Option<Item>),
    Len(usize),
    Hint(usize, Option<usize>),
    Count(usize),
    Items(Vec<Item>),
    Pos(Option<usize>),
    Flag(bool),
    /// between two actions on one container form
    Sep,
    NoRange,
    NotMutable,
}

#[derive(Clone, Copy, Debug, Serialize, Deserialize, Hash, PartialEq, Eq)]
pub enum Form {
    Boxed,
    Slice,
    MutSlice,
    Array(usize),
}

#[derive(Clone, Debug)]
pub enum SnapAction {
    /// `(&form).into_iter()`
    Iter(Vec<Step>, End),
    /// `form.iter()`
    IterMethod(Vec<Step>, End),
    /// `(&mut form).into_iter()`
    IterMut(Vec<Step>, End),
    /// `form.into_iter()`
    IntoIter(Vec<Step>, End),
    Get(usize),
    GetRange(RangeSpec, Vec<Step>, End),
    GetMut(usize, Item),
    GetMutRange(RangeSpec, Vec<Step>, End),
}

/// Apply a consumption schedule to an iterator (real or model) and return what
/// was observed. Shared by the system under test and the reference model.
pub fn run_sched<'a>(mut it: Box<dyn It + 'a>, sched: &[Step], end: End) -> Vec<Obs> {
    let mut out = Vec::with_capacity(sched.len() + 1);
    for s in sched {
        match *s {
            Step::Next => out.push(Obs::Item(it.next())),
            Step::NextBack => out.push(Obs::Item(it.next_back())),
            Step::Len => out.push(Obs::Len(it.len())),
            Step::SizeHint => {
                let (a, b) = it.size_hint();
                out.push(Obs::Hint(a, b))
            }
            Step::Find(k) => out.push(Obs::Item(it.find_sel(k))),
            Step::RFind(k) => out.push(Obs::Item(it.rfind_sel(k))),
            Step::Position(k) => out.push(Obs::Pos(it.position_sel(k))),
            Step::RPosition(k) => out.push(Obs::Pos(it.rposition_sel(k))),
            Step::Any(k) => out.push(Obs::Flag(it.any_sel(k))),
            Step::All(k) => out.push(Obs::Flag(it.all_sel(k))),
            Step::Nth(n) => out.push(Obs::Item(it.nth(n as usize))),
            Step::NthBack(n) => out.push(Obs::Item(it.nth_back(n as usize))),
            Step::NextSet(k) => match it.next_set(fresh_item_static(k)) {
                Some(o) => out.push(Obs::Item(o)),
                None => out.push(Obs::NotMutable),
            },
            Step::NextBackSet(k) => match it.next_back_set(fresh_item_static(k)) {
                Some(o) => out.push(Obs::Item(o)),
                None => out.push(Obs::NotMutable),
            },
            Step::Panic => {
                // the iterator is alive here and is dropped by the unwinding
                SCHED_TRACE.with(|t| *t.borrow_mut() = Some(std::mem::take(&mut out)));
                inject_panic(18);
            }
        }
    }
    match end {
        End::Drop => drop(it),
        End::Forget => std::mem::forget(it),
        End::Count => out.push(Obs::Count(it.count())),
        End::Last => out.push(Obs::Item(it.last())),
        End::Fold => out.push(Obs::Items(it.fold_all())),
        End::RFold => out.push(Obs::Items(it.rfold_all())),
        End::ForEach => out.push(Obs::Items(it.for_each_all())),
        End::Adapt { rev, skip, step } => out.push(Obs::Items(it.adapt_all(rev, skip as usize, step as usize))),
        End::Exhaust => {
            // an iterator that never ends must end the conversation, not the memory
            let cap = it.len().saturating_add(ITER_CAP);
            while let Some(x) = it.next() {
                out.push(Obs::Item(Some(x)));
                if out.len() > cap {
                    panic!("{ITER_NEVER_ENDS}");
                }
            }
            out.push(Obs::Item(it.next()));
        }
    }
    out
}

/// The predicate of the searching steps: a fixed function of the item's value and a selector (about one item
/// in three matches).
pub fn sel_pred(x: &Item, sel: u8) -> bool {
    // slot 0 only: it is the one slot every type has (the model keeps unused slots, the collection does not)
    let b = x[0].to_bits();
    let h = (b >> 9) ^ (b >> 14) ^ (b >> 20);
    (h.wrapping_add(sel as u32)) % 3 == 0
}

/// Every item an observation trace shows as yielded, in order.
fn yielded(trace: &[Obs]) -> Vec<Item> {
    let mut v = Vec::new();
    for o in trace {
        match o {
            Obs::Item(Some(x)) => v.push(*x),
            Obs::Items(xs) => v.extend(xs.iter().copied()),
            _ => {}
        }
    }
    v
}

/// More items than this beyond what `len()` announced: the iterator does not end.
pub const ITER_CAP: usize = 4096;
pub const ITER_NEVER_ENDS: &str = "palsim: no-termination: an iterator yielded 4096 items more than its len() and still has not ended";

thread_local! {
    /// Observations made before an injected panic inside `run_sched`.
    static SCHED_TRACE: std::cell::RefCell<Option<Vec<Obs>>> = const { std::cell::RefCell::new(None) };
}

fn take_sched_trace() -> Vec<Obs> {
    SCHED_TRACE.with(|t| t.borrow_mut().take()).unwrap_or_default()
}

/// The k-th fresh item in the canonical numbering: every component slot j has
/// its own value set (`k' + j/8 + 1/16`), so a value that ends up in the wrong
/// component collection, or at the wrong index, is visible. Slot values stay in
/// [0, 160): a fixed point of both hue normal forms, so bit equality and the
/// color types' own `PartialEq` coincide.
fn fresh_item_static(k: u32) -> Item {
    let base = (k % 160) as f32;
    let mut a = [0.0f32; 4];
    for (j, x) in a.iter_mut().enumerate() {
        *x = base + j as f32 * 0.125 + 0.0625;
    }
    // keep items with equal `k % 160` apart (slot 1 is never a hue) ...
    a[1] += (k / 160) as f32 * (1.0 / 64.0);
    // ... and in slot 0 too, for the one-component type (2^-10 steps are exact in f32 here and keep a hue in
    // slot 0 below 180 degrees: ids stay under a million)
    a[0] += (k / 160) as f32 * (1.0 / 1024.0);
    a
}

// ------------------------------------------------------------------ plans

#[derive(Clone, Debug, Serialize, Deserialize, Hash, PartialEq, Eq)]
pub enum Op {
    WithCapacity { cap: u8 },
    Push,
    Pop,
    /// extend with `n` fresh items; `panic_at = Some(k)`: the source panics on its (k mod (n+1))-th `next`
    /// `hint`: what the caller-supplied source reports as `size_hint` (always a *correct* bound):
    /// 0 exact, 1 `(0, None)`, 2 `(0, Some(n))` (like `filter`), 3 `(n/2, Some(n + 3))` (like a chain
    /// of an exact and a filtered part), 4 `(n, None)`
    /// `gap = Some(g)` (only without `panic_at`): a source that is not fused — it answers `None` once when it is
    /// asked for item g mod (n+1) and would go on with the remaining items if it were polled again. A plain vector
    /// stops at the first `None`; the reference is `Vec` itself fed from an identical source
    Extend { n: u8, panic_at: Option<u8>, #[serde(default)] hint: u8, #[serde(default)] gap: Option<u8> },
    Collect { n: u8, panic_at: Option<u8>, #[serde(default)] hint: u8, #[serde(default)] gap: Option<u8> },
    Clear,
    Len,
    Get { i: u16, past: u8 },
    GetRange { r: RangeGen, sched: Vec<Step>, end: End },
    GetMut { i: u16, past: u8, write: bool },
    GetMutRange { r: RangeGen, sched: Vec<Step>, end: End },
    Iter { sched: Vec<Step>, end: End },
    IterMut { sched: Vec<Step>, end: End },
    Drain { r: RangeGen, sched: Vec<Step>, end: End },
    /// owned `into_iter`; afterwards the container is rebuilt from what was yielded (`collect`)
    IntoIter { sched: Vec<Step>, end: End },
    /// One to three actions in a row on ONE instance of another container form (Box, array, slice, mut
    /// slice) built from a copy of the current contents; afterwards the form is read back through itself.
    Snap {
        form: Form,
        action: u8,
        i: u16,
        r: RangeGen,
        sched: Vec<Step>,
        end: End,
        /// further actions on the same instance
        #[serde(default)]
        more: Vec<SnapMore>,
    },
}

#[derive(Clone, Debug, Serialize, Deserialize, Hash, PartialEq, Eq)]
pub struct SnapMore {
    pub action: u8,
    pub i: u16,
    pub r: RangeGen,
    pub sched: Vec<Step>,
    pub end: End,
}

impl Op {
    fn kind(&self) -> &'static str {
        match self {
            Op::WithCapacity { .. } => "with_capacity",
            Op::Push => "push",
            Op::Pop => "pop",
            Op::Extend { .. } => "extend",
            Op::Collect { .. } => "collect",
            Op::Clear => "clear",
            Op::Len => "len",
            Op::Get { .. } => "get",
            Op::GetRange { .. } => "get_range",
            Op::GetMut { .. } => "get_mut",
            Op::GetMutRange { .. } => "get_mut_range",
            Op::Iter { .. } => "iter",
            Op::IterMut { .. } => "iter_mut",
            Op::Drain { .. } => "drain",
            Op::IntoIter { .. } => "into_iter",
            Op::Snap { form, .. } => match form {
                Form::Boxed => "snap_boxed",
                Form::Slice => "snap_slice",
                Form::MutSlice => "snap_mut_slice",
                Form::Array(_) => "snap_array",
            },
        }
    }
}

#[derive(Clone, Debug, Serialize, Deserialize, Hash, PartialEq, Eq)]
pub struct Plan {
    /// containers are cut back to 8 elements when they grow beyond this (0 = the default of 60)
    #[serde(default)]
    pub max_len: u16,
    pub ty: String,
    /// false: hues from the canonical numbering (bit comparison);
    /// true: arbitrary raw hues (370°, −10°, 1e5°...), compared with `PartialEq` only
    pub raw_hues: bool,
    pub ops: Vec<Op>,
}

pub struct C18 {
    types: Vec<&'static TypeDesc>,
}

impl C18 {
    pub fn new() -> Self {
        C18 { types: all_types() }
    }
    fn desc(&self, name: &str) -> Option<&'static TypeDesc> {
        self.types.iter().copied().find(|d| d.name == name)
    }
}

const OP_KINDS: usize = 16;

fn gen_sched(rng: &mut Rng, mutable: bool, allow_panic: bool, fresh: &mut u32) -> Vec<Step> {
    let n = match rng.below(10) {
        0 => 0,
        1..=6 => rng.below(6) as usize,
        _ => rng.below(30) as usize,
    };
    let mut v = Vec::with_capacity(n);
    // a bias per schedule: mostly front, mostly back, or mixed
    let back_bias = *rng.pick(&[0u64, 1, 5, 9, 10]);
    for _ in 0..n {
        let c = rng.below(20);
        let back = rng.below(10) < back_bias;
        let s = if c < 2 {
            Step::Len
        } else if c < 4 {
            Step::SizeHint
        } else if c == 5 && !mutable {
            let k = rng.below(6) as u8;
            match rng.below(6) {
                0 => Step::Find(k),
                1 => Step::RFind(k),
                2 => Step::Position(k),
                3 => Step::RPosition(k),
                4 => Step::Any(k),
                _ => Step::All(k),
            }
        } else if c == 4 {
            // jumps: mostly short, sometimes past the end
            let n = *rng.pick(&[0u8, 1, 1, 2, 3, 7, 40]);
            if back {
                Step::NthBack(n)
            } else {
                Step::Nth(n)
            }
        } else if mutable && c < 12 {
            *fresh += 1;
            if back {
                Step::NextBackSet(*fresh)
            } else {
                Step::NextSet(*fresh)
            }
        } else if back {
            Step::NextBack
        } else {
            Step::Next
        };
        v.push(s);
    }
    if allow_panic && !v.is_empty() {
        let at = rng.usize_below(v.len() + 1);
        v.insert(at, Step::Panic);
    }
    v
}

fn gen_range(rng: &mut Rng) -> RangeGen {
    let mode = match rng.below(20) {
        0..=13 => 0,
        14..=15 => 1,
        16..=17 => 2,
        18 => 3,
        _ => 4,
    };
    RangeGen {
        kind: rng.below(7) as u8,
        a: rng.below(64) as u16,
        b: rng.below(64) as u16,
        mode,
        bk: rng.below(9) as u8,
    }
}

fn gen_hint(rng: &mut Rng) -> u8 {
    match rng.below(10) {
        0..=4 => 0,
        5 => 1,
        6 | 7 => 2,
        8 => 3,
        _ => 4,
    }
}

fn gen_end(rng: &mut Rng, leak_ok: bool) -> End {
    match rng.below(10) {
        0..=3 => End::Drop,
        4 => End::Exhaust,
        5 => match rng.below(4) {
            0 => End::Last,
            1 => End::Fold,
            2 => End::RFold,
            _ => End::ForEach,
        },
        6 => End::Adapt { rev: rng.chance(2, 3), skip: *rng.pick(&[0u8, 0, 1, 2, 5, 30]), step: *rng.pick(&[1u8, 1, 2, 3, 7]) },
        7 => End::Count,
        _ => {
            if leak_ok {
                End::Forget
            } else {
                End::Drop
            }
        }
    }
}

impl World for C18 {
    type Plan = Plan;

    fn id(&self) -> &'static str {
        "C18"
    }

    fn random_runs(&self, tier: Tier) -> u64 {
        match tier {
            Tier::Quick => 4_000_000,
            Tier::Thorough => 100_000_000,
        }
    }

    fn plan(&self, index: u64, rng: &mut Rng, tier: Tier) -> Plan {
        // the thorough tier spends a quarter of its plans beyond the quick tier's bounds:
        // histories up to 130 operations on up to ~250 elements
        let deep = tier == Tier::Thorough && (index / self.types.len() as u64) % 4 == 1;
        // every type is visited round-robin so that coverage per type does not
        // depend on luck; everything else is drawn
        let d = self.types[(index % self.types.len() as u64) as usize];
        let raw_hues = d.hue_slot.is_some() && rng.chance(1, 8);
        // swarm: a random subset of op kinds is enabled, with random weights
        let mut weights = [0u32; OP_KINDS];
        for w in weights.iter_mut() {
            if rng.chance(7, 10) {
                *w = 1 + rng.below(8) as u32;
            }
        }
        // emptying operations stay rare, so that most of a history runs on a non-empty container
        weights[0] = weights[0].min(1);
        weights[5] = weights[5].min(1);
        weights[4] = weights[4].min(2);
        // growth must be possible
        if weights[1] == 0 && weights[3] == 0 && weights[4] == 0 {
            weights[1] = 4;
        }
        weights[1] = weights[1].max(2);
        let faults_enabled = rng.chance(6, 10);
        let leak_ok = faults_enabled && rng.chance(1, 2);
        let unwind_ok = faults_enabled && rng.chance(1, 2);
        let n_ops = match rng.below(10) {
            0..=5 => 1 + rng.below(12),
            6..=8 => 8 + rng.below(24),
            _ if deep => 48 + rng.below(83),
            _ => 24 + rng.below(25),
        } as usize;
        let mut fresh = 1000u32; // schedule-local fresh ids; pushes use a run counter
        let mut ops = Vec::with_capacity(n_ops);
        // most plans start from a non-empty container
        if rng.chance(3, 4) {
            let n0 = if deep { rng.below(200) } else { rng.below(25) };
            ops.push(Op::Collect { n: n0 as u8, panic_at: None, hint: gen_hint(rng), gap: None });
        }
        for _ in 0..n_ops {
            let k = rng.weighted(&weights);
            let op = match k {
                0 => Op::WithCapacity { cap: rng.below(40) as u8 },
                1 => Op::Push,
                2 => Op::Pop,
                3 => Op::Extend {
                    // mostly a few items; sometimes around the sizes a chunked implementation would use
                    n: match rng.below(12) {
                        0 => *rng.pick(&[15u8, 16, 17, 31, 32, 33, 63, 64, 65]),
                        1 if deep => *rng.pick(&[127u8, 128, 129, 200, 255]),
                        _ => rng.below(9) as u8,
                    },
                    panic_at: if unwind_ok && rng.chance(1, 3) { Some(rng.below(9) as u8) } else { None },
                    hint: gen_hint(rng),
                    gap: if rng.chance(1, 6) { Some(rng.below(256) as u8) } else { None },
                },
                4 => Op::Collect {
                    n: rng.below(25) as u8,
                    panic_at: if unwind_ok && rng.chance(1, 4) { Some(rng.below(25) as u8) } else { None },
                    hint: gen_hint(rng),
                    gap: if rng.chance(1, 6) { Some(rng.below(256) as u8) } else { None },
                },
                5 => Op::Clear,
                6 => Op::Len,
                7 => Op::Get { i: rng.below(64) as u16, past: if rng.chance(1, 4) { 1 + rng.below(3) as u8 } else { 0 } },
                8 => Op::GetRange { r: gen_range(rng), sched: gen_sched(rng, false, false, &mut fresh), end: gen_end(rng, leak_ok) },
                9 => Op::GetMut {
                    i: rng.below(64) as u16,
                    past: if rng.chance(1, 4) { 1 + rng.below(3) as u8 } else { 0 },
                    write: rng.chance(3, 4),
                },
                10 => Op::GetMutRange { r: gen_range(rng), sched: gen_sched(rng, true, false, &mut fresh), end: gen_end(rng, leak_ok) },
                11 => Op::Iter { sched: gen_sched(rng, false, false, &mut fresh), end: gen_end(rng, leak_ok) },
                12 => {
                    let p = unwind_ok && rng.chance(1, 3);
                    Op::IterMut { sched: gen_sched(rng, true, p, &mut fresh), end: gen_end(rng, leak_ok) }
                }
                13 => {
                    let p = unwind_ok && rng.chance(1, 6);
                    Op::Drain { r: gen_range(rng), sched: gen_sched(rng, false, p, &mut fresh), end: gen_end(rng, leak_ok) }
                }
                14 => {
                    let l = leak_ok && rng.chance(1, 4);
                    Op::IntoIter { sched: gen_sched(rng, false, false, &mut fresh), end: gen_end(rng, l) }
                }
                _ => Op::Snap {
                    form: match rng.below(4) {
                        0 => Form::Boxed,
                        1 => Form::Slice,
                        2 => Form::MutSlice,
                        _ => Form::Array(*rng.pick(&[0usize, 1, 2, 5])),
                    },
                    action: rng.below(8) as u8,
                    i: rng.below(64) as u16,
                    r: gen_range(rng),
                    sched: {
                        let mutable = rng.chance(1, 2);
                        gen_sched(rng, mutable, false, &mut fresh)
                    },
                    end: gen_end(rng, false),
                    more: {
                        let n_more = match rng.below(6) {
                            0..=2 => 0,
                            3..=4 => 1,
                            _ => 2,
                        };
                        (0..n_more)
                            .map(|_| SnapMore {
                                action: rng.below(8) as u8,
                                i: rng.below(64) as u16,
                                r: gen_range(rng),
                                sched: {
                                    let mutable = rng.chance(1, 2);
                                    gen_sched(rng, mutable, false, &mut fresh)
                                },
                                end: gen_end(rng, false),
                            })
                            .collect()
                    },
                },
            };
            ops.push(op);
        }
        Plan { max_len: if deep { 320 } else { 0 }, ty: d.name.to_string(), raw_hues, ops }
    }

    fn execute(&self, plan: &Plan, ctx: &mut Ctx<'_>) {
        let Some(d) = self.desc(&plan.ty) else {
            ctx.fail("harness", "unknown-type", format!("unknown type {}", plan.ty));
            return;
        };
        Exec::new(d, plan.raw_hues, ctx).with_max_len(plan.max_len).run(&plan.ops);
    }

    fn shrink(&self, plan: &Plan) -> Vec<Plan> {
        let mut out = Vec::new();
        for ops in shrink_list(&plan.ops) {
            out.push(Plan { ops, ..plan.clone() });
        }
        if plan.raw_hues {
            out.push(Plan { raw_hues: false, ..plan.clone() });
        }
        // per-op simplification
        for (idx, op) in plan.ops.iter().enumerate() {
            let mut simpler: Vec<Op> = Vec::new();
            let shrink_sched = |s: &Vec<Step>| -> Vec<Vec<Step>> { shrink_list(s).into_iter().take(12).collect() };
            match op {
                Op::Extend { n, panic_at, hint, gap } => {
                    if *n > 0 {
                        simpler.push(Op::Extend { n: n / 2, panic_at: *panic_at, hint: *hint, gap: *gap });
                        simpler.push(Op::Extend { n: n - 1, panic_at: *panic_at, hint: *hint, gap: *gap });
                    }
                    if panic_at.is_some() {
                        simpler.push(Op::Extend { n: *n, panic_at: None, hint: *hint, gap: *gap });
                    }
                    if *hint != 0 {
                        simpler.push(Op::Extend { n: *n, panic_at: *panic_at, hint: 0, gap: *gap });
                    }
                    if let Some(g) = gap {
                        simpler.push(Op::Extend { n: *n, panic_at: *panic_at, hint: *hint, gap: None });
                        if *g > 0 {
                            simpler.push(Op::Extend { n: *n, panic_at: *panic_at, hint: *hint, gap: Some(0) });
                        }
                    }
                }
                Op::Collect { n, panic_at, hint, gap } => {
                    if *n > 0 {
                        simpler.push(Op::Collect { n: n / 2, panic_at: *panic_at, hint: *hint, gap: *gap });
                        simpler.push(Op::Collect { n: n - 1, panic_at: *panic_at, hint: *hint, gap: *gap });
                    }
                    if panic_at.is_some() {
                        simpler.push(Op::Collect { n: *n, panic_at: None, hint: *hint, gap: *gap });
                    }
                    if *hint != 0 {
                        simpler.push(Op::Collect { n: *n, panic_at: *panic_at, hint: 0, gap: *gap });
                    }
                    if let Some(g) = gap {
                        simpler.push(Op::Collect { n: *n, panic_at: *panic_at, hint: *hint, gap: None });
                        if *g > 0 {
                            simpler.push(Op::Collect { n: *n, panic_at: *panic_at, hint: *hint, gap: Some(0) });
                        }
                    }
                }
                Op::GetRange { r, sched, end } => {
                    for s in shrink_sched(sched) {
                        simpler.push(Op::GetRange { r: *r, sched: s, end: *end });
                    }
                    if *end != End::Drop {
                        simpler.push(Op::GetRange { r: *r, sched: sched.clone(), end: End::Drop });
                    }
                }
                Op::GetMutRange { r, sched, end } => {
                    for s in shrink_sched(sched) {
                        simpler.push(Op::GetMutRange { r: *r, sched: s, end: *end });
                    }
                    if *end != End::Drop {
                        simpler.push(Op::GetMutRange { r: *r, sched: sched.clone(), end: End::Drop });
                    }
                }
                Op::Iter { sched, end } => {
                    for s in shrink_sched(sched) {
                        simpler.push(Op::Iter { sched: s, end: *end });
                    }
                    if *end != End::Drop {
                        simpler.push(Op::Iter { sched: sched.clone(), end: End::Drop });
                    }
                }
                Op::IterMut { sched, end } => {
                    for s in shrink_sched(sched) {
                        simpler.push(Op::IterMut { sched: s, end: *end });
                    }
                    if *end != End::Drop {
                        simpler.push(Op::IterMut { sched: sched.clone(), end: End::Drop });
                    }
                }
                Op::Drain { r, sched, end } => {
                    for s in shrink_sched(sched) {
                        simpler.push(Op::Drain { r: *r, sched: s, end: *end });
                    }
                    if *end != End::Drop {
                        simpler.push(Op::Drain { r: *r, sched: sched.clone(), end: End::Drop });
                    }
                    if r.kind != 0 {
                        simpler.push(Op::Drain { r: RangeGen { kind: 0, ..*r }, sched: sched.clone(), end: *end });
                    }
                }
                Op::IntoIter { sched, end } => {
                    for s in shrink_sched(sched) {
                        simpler.push(Op::IntoIter { sched: s, end: *end });
                    }
                    if *end != End::Drop {
                        simpler.push(Op::IntoIter { sched: sched.clone(), end: End::Drop });
                    }
                }
                Op::Snap { form, action, i, r, sched, end, more } => {
                    for s in shrink_sched(sched) {
                        simpler.push(Op::Snap { form: *form, action: *action, i: *i, r: *r, sched: s, end: *end, more: more.clone() });
                    }
                    if *end != End::Drop {
                        simpler.push(Op::Snap { form: *form, action: *action, i: *i, r: *r, sched: sched.clone(), end: End::Drop, more: more.clone() });
                    }
                    if !more.is_empty() {
                        simpler.push(Op::Snap { form: *form, action: *action, i: *i, r: *r, sched: sched.clone(), end: *end, more: Vec::new() });
                        for k in 0..more.len() {
                            let mut m2 = more.clone();
                            m2.remove(k);
                            simpler.push(Op::Snap { form: *form, action: *action, i: *i, r: *r, sched: sched.clone(), end: *end, more: m2 });
                        }
                        // without the first action
                        let m0 = &more[0];
                        simpler.push(Op::Snap { form: *form, action: m0.action, i: m0.i, r: m0.r, sched: m0.sched.clone(), end: m0.end, more: more[1..].to_vec() });
                        for (k, m) in more.iter().enumerate() {
                            for sch in shrink_sched(&m.sched).into_iter().take(6) {
                                let mut m2 = more.clone();
                                m2[k].sched = sch;
                                simpler.push(Op::Snap { form: *form, action: *action, i: *i, r: *r, sched: sched.clone(), end: *end, more: m2 });
                            }
                        }
                    }
                }
                _ => {}
            }
            for s in simpler {
                let mut ops = plan.ops.clone();
                ops[idx] = s;
                out.push(Plan { ops, ..plan.clone() });
            }
        }
        out
    }

    fn info(&self) -> WorldInfo {
        WorldInfo {
            rule: "plan = (color type x {plain, alpha, alpha of another element type}, hue numbering, list of <=50 ops over \
                   {with_capacity, push, pop, extend, collect, clear, len, get, get(range), get_mut, get_mut(range), iter, iter_mut, \
                   drain(range), owned into_iter, one to three actions in a row on one Box/array/slice/mut-slice instance that is then read \
                   back through itself}, extend/collect sources with exact, absent and loose size hints, each iterator op with a planned \
                   next/next_back/nth/nth_back/len/size_hint/write schedule and an end of life in {drop, exhaust, count, forget, last, fold, \
                   rfold, rev/skip/step_by adaptors}); plans are \
                   generated from the run seed (types round-robin, op kinds enabled swarm-style); distinct = distinct plan hash; \
                   non-trivial = executed at least one state-changing step and at least one comparison against the Vec model",
            state_measure: "states = distinct (type variant, length bucket, op kind, outcome class); transitions = distinct consecutive pairs",
            assumptions: vec![
                "the reference model is std's Vec<[f32;4]> driven through the same history; std's Vec, slice and Drain are trusted",
                "items are numbered so that every component slot has its own value set; equality is bitwise on canonical items and the color type's PartialEq on raw-hue runs",
                "after a leaked (mem::forget) drain the number of lost elements is std-unspecified: only equal component lengths and an intact prefix are demanded, then the model is re-synchronised",
                "bounds: <= ~60 elements, <= 50 ops per plan (thorough tier, a quarter of the plans: <= ~250 elements, <= 130 ops)",
            ],
            real: vec![
                "palette macros/struct_of_arrays.rs (all 26 instantiations)",
                "palette alpha/alpha.rs Extend/FromIterator/Iter",
                "palette hues.rs hue collections and iterators",
                "palette macros/reference_component.rs (copied/set/as_refs)",
            ],
            stub: vec!["panicking source iterator (caller code)", "panicking loop body (caller code)"],
            expected_probes: vec![
                "drain-partial-then-push",
                "source-that-is-not-fused",
                "drain-forgotten",
                "get-out-of-range-none",
                "range-inverted",
                "drain-empty-range",
                "pop-on-empty",
                "iter-met-in-middle",
                "extend-unwind-k>0",
                "iter_mut-unwind-after-write",
                "drain-contract-panic",
                "len-0",
                "raw-hues",
                "nth_back-jump-inside",
                "rev-then-skip-or-step_by",
                "last-fold-rfold",
                "snap-several-actions-on-one-form",
                "source-with-inexact-size-hint",
            ],
            expected_faults: vec!["cancel", "leak", "unwind@source", "unwind@loop-body", "contract-panic"],
            time_note: "palette has no clock; simulated time is reported as steps_executed",
        }
    }
}

// ------------------------------------------------------------------ execution

struct Exec<'c, 'a> {
    d: &'static TypeDesc,
    raw_hues: bool,
    ctx: &'c mut Ctx<'a>,
    sut: Option<Box<dyn Sut>>,
    model: Vec<Item>,
    next_id: u32,
    last_drain_partial: bool,
    max_len: usize,
}

fn bits(i: &Item) -> [u32; 4] {
    i.map(f32::to_bits)
}

impl<'c, 'a> Exec<'c, 'a> {
    fn new(d: &'static TypeDesc, raw_hues: bool, ctx: &'c mut Ctx<'a>) -> Self {
        let sut = (d.with_capacity)(0);
        Exec { d, raw_hues, ctx, sut: Some(sut), model: Vec::new(), next_id: 0, last_drain_partial: false, max_len: 60 }
    }

    fn with_max_len(mut self, max_len: u16) -> Self {
        if max_len > 0 {
            self.max_len = max_len as usize;
        }
        self
    }

    fn fresh(&mut self) -> Item {
        let k = self.next_id;
        self.next_id += 1;
        self.make(k)
    }

    fn make(&self, k: u32) -> Item {
        let mut it = fresh_item_static(k);
        for x in it.iter_mut().skip(self.d.ncomp) {
            *x = 0.0;
        }

        if self.raw_hues {
            if let Some(h) = self.d.hue_slot {
                const RAW: [f32; 8] = [370.0, -10.0, 100000.0, 360.0, -180.0, 180.0, 725.5, -0.5];
                it[h] = RAW[(k % 8) as usize] + (k / 8) as f32;
            }
        }
        it
    }

    /// Items created inside schedules use the static numbering; bring them to
    /// this type's shape (unused slots zero, raw hues) the same way for SUT and model.
    fn same(&self, a: &Item, b: &Item) -> bool {
        // slots beyond the type's component count are not part of the color
        let (mut a, mut b) = (*a, *b);
        for j in self.d.ncomp..4 {
            a[j] = 0.0;
            b[j] = 0.0;
        }
        if self.raw_hues {
            (self.d.eq_items)(a, b)
        } else {
            bits(&a) == bits(&b) && (self.d.eq_items)(a, b)
        }
    }

    fn same_obs(&self, a: &Obs, b: &Obs) -> bool {
        match (a, b) {
            (Obs::Item(Some(x)), Obs::Item(Some(y))) => self.same(x, y),
            (Obs::Item(None), Obs::Item(None)) => true,
            (Obs::Items(x), Obs::Items(y)) => x.len() == y.len() && x.iter().zip(y.iter()).all(|(p, q)| self.same(p, q)),
            _ => a == b,
        }
    }

    fn cmp_traces(&mut self, op: &'static str, sut: &[Obs], model: &[Obs]) -> bool {
        self.ctx.checked();
        // what the system under test showed goes into the event log (as a digest)
        let mut h = simcore::rng::Fnv::default();
        for o in sut {
            match o {
                Obs::Item(Some(x)) => {
                    h.u64(1);
                    for v in x {
                        h.u64(v.to_bits() as u64);
                    }
                }
                Obs::Item(None) => h.u64(2),
                Obs::Len(n) => h.u64(3 + ((*n as u64) << 8)),
                Obs::Hint(a, b) => h.u64(4 + ((*a as u64) << 8) + ((b.unwrap_or(usize::MAX) as u64) << 32)),
                Obs::Count(n) => h.u64(5 + ((*n as u64) << 8)),
                Obs::Items(xs) => {
                    h.u64(8 + ((xs.len() as u64) << 8));
                    for x in xs {
                        for v in x {
                            h.u64(v.to_bits() as u64);
                        }
                    }
                }
                Obs::NoRange => h.u64(6),
                Obs::NotMutable => h.u64(7),
                Obs::Sep => h.u64(9),
                Obs::Pos(p) => h.u64(10 + ((p.map(|x| x as u64 + 1).unwrap_or(0)) << 8)),
                Obs::Flag(b) => h.u64(11 + ((*b as u64) << 8)),
            }
        }
        ev!(self.ctx, "  observed {op}: {} observations, digest {:016x}", sut.len(), h.finish());
        if sut.len() != model.len() {
            return self.ctx.fail(
                &format!("trace:{op}"),
                &format!("{}:{op}", self.d.name),
                format!("observation traces differ in length: sut={sut:?} model={model:?}"),
            );
        }
        for (i, (s, m)) in sut.iter().zip(model.iter()).enumerate() {
            if !self.same_obs(s, m) {
                return self.ctx.fail(
                    &format!("trace:{op}"),
                    &format!("{}:{op}", self.d.name),
                    format!("observation {i} differs: sut={s:?} model={m:?}"),
                );
            }
        }
        false
    }

    /// All component collections have the same length as the model, and the
    /// contents read back through `get` equal the model.
    fn check_state(&mut self, op: &'static str) -> bool {
        let Some(sut) = self.sut.as_ref() else { return false };
        self.ctx.checked();
        let lens = sut.lens();
        let want = self.model.len();
        if lens.iter().any(|l| *l != want) {
            return self.ctx.fail(
                &format!("lengths:{op}"),
                &format!("{}:{op}", self.d.name),
                format!("component lengths {lens:?} after {op}, model length {want}"),
            );
        }
        for i in 0..want {
            let got = self.sut.as_ref().unwrap().get(i);
            let ok = match got {
                Some(g) => self.same(&g, &self.model[i]),
                None => false,
            };
            if !ok {
                return self.ctx.fail(
                    &format!("contents:{op}"),
                    &format!("{}:{op}", self.d.name),
                    format!("element {i} after {op}: sut={got:?} model={:?}", self.model[i]),
                );
            }
        }
        false
    }

    fn len_bucket(&self) -> u8 {
        match self.model.len() {
            0 => 0,
            1 => 1,
            2..=4 => 2,
            5..=16 => 3,
            _ => 4,
        }
    }

    fn run(&mut self, ops: &[Op]) {
        ev!(self.ctx, "type={} raw_hues={}", self.d.name, self.raw_hues);
        if self.raw_hues {
            self.ctx.probe("raw-hues");
        }
        for (n, op) in ops.iter().enumerate() {
            self.ctx.step();
            let kind = op.kind();
            self.ctx.cell(self.d.name, kind);
            let outcome = self.apply(n, op);
            let Some(outcome) = outcome else { return };
            if self.model.is_empty() {
                self.ctx.probe("len-0");
            }
            let st = (self.d.variant, self.len_bucket(), kind, outcome);
            self.ctx.state(&st);
            if self.check_state(kind) {
                return;
            }
            // keep containers bounded
            if self.model.len() > self.max_len {
                let keep = 8;
                let sut = self.sut.as_mut().unwrap();
                let _ = run_sched(sut.drain(&RangeSpec::From(keep)), &[], End::Drop);
                self.model.truncate(keep);
            }
        }
        ev!(self.ctx, "end len={}", self.model.len());
    }

    /// Returns the outcome class, or `None` if a violation stops the run.
    fn apply(&mut self, n: usize, op: &Op) -> Option<&'static str> {
        let d = self.d;
        let len = self.model.len();
        match op {
            Op::WithCapacity { cap } => {
                let cap = *cap as usize;
                let sut = (d.with_capacity)(cap);
                let caps = sut.caps();
                let lens = sut.lens();
                self.ctx.checked();
                // the property speaks about contents and lengths; how much is reserved is only counted
                if caps.iter().any(|c| *c < cap) {
                    self.ctx.extra("with_capacity-reserved-less-than-asked", 1);
                }
                if lens.iter().any(|l| *l != 0) {
                    self.ctx.fail(
                        "with_capacity",
                        &format!("{}:with_capacity", d.name),
                        format!("with_capacity({cap}) gave a collection that is not empty: lengths {lens:?}"),
                    );
                    return None;
                }
                self.sut = Some(sut);
                self.model = Vec::with_capacity(cap);
                self.ctx.changed();
                ev!(self.ctx, "{n} with_capacity({cap})");
                Some("ok")
            }
            Op::Push => {
                let it = self.fresh();
                self.sut.as_mut().unwrap().push(it);
                self.model.push(it);
                self.ctx.changed();
                if self.last_drain_partial {
                    self.ctx.probe("drain-partial-then-push");
                }
                self.last_drain_partial = false;
                ev!(self.ctx, "{n} push {:?}", it);
                Some("ok")
            }
            Op::Pop => {
                let s = self.sut.as_mut().unwrap().pop();
                let m = self.model.pop();
                if m.is_none() {
                    self.ctx.probe("pop-on-empty");
                }
                self.ctx.changed();
                ev!(self.ctx, "{n} pop -> {:?}", m);
                if self.cmp_traces("pop", &[Obs::Item(s)], &[Obs::Item(m)]) {
                    return None;
                }
                Some(if m.is_some() { "some" } else { "none" })
            }
            Op::Extend { n: cnt, panic_at, hint, gap } => {
                if *hint != 0 {
                    self.ctx.probe("source-with-inexact-size-hint");
                }
                let cnt = *cnt as usize;
                let items: Vec<Item> = (0..cnt).map(|_| self.fresh()).collect();
                let at = panic_at.map(|k| k as usize % (cnt + 1));
                let gap_at = if at.is_none() { gap.map(|g| g as usize % (cnt + 1)) } else { None };
                let sut = self.sut.as_mut().unwrap();
                let taken = std::cell::Cell::new(0usize);
                let r = catch(|| {
                    let mut src = PanicSource { items: &items, pos: 0, panic_at: at, hint: *hint, gap: gap_at };
                    sut.extend(&mut src);
                    taken.set(src.pos.min(items.len()));
                });
                self.ctx.changed();
                match (r, at) {
                    (Caught::Ok(()), None) => {
                        // the reference is `Vec` itself on an identical source (it stops at the first `None`)
                        let mut src = PanicSource { items: &items, pos: 0, panic_at: None, hint: *hint, gap: gap_at };
                        self.model.extend(&mut src);
                        if gap_at.is_some() {
                            self.ctx.probe("source-that-is-not-fused");
                            // what is left in a source that is handed over with `by_ref()` is the caller's: a plain
                            // vector takes nothing after the first `None` (on a fused source polling again takes nothing
                            // either, which is why this is judged here only)
                            if taken.get() != src.pos.min(items.len()) {
                                self.ctx.fail(
                                    "extend-took-items-after-the-source-said-none",
                                    &format!("{}:extend", d.name),
                                    format!("extend took {} of {cnt} items from a source that answered None in front of item {:?}; a vector takes {}", taken.get(), gap_at, src.pos.min(items.len())),
                                );
                                return None;
                            }
                        }
                        ev!(self.ctx, "{n} extend {cnt}");
                        Some("ok")
                    }
                    (Caught::Injected(_), Some(k)) => {
                        // k items were taken from the source before it panicked. `Vec::extend` keeps them
                        // (undocumented); an all-or-nothing implementation that keeps fewer, with every
                        // component collection in lockstep, does not contradict the property either. So:
                        // the first j <= k of them, whatever j the collection shows; contents, order, the
                        // old prefix and equal component lengths are judged by the state check below.
                        let lens = self.sut.as_ref().unwrap().lens();
                        let l = lens.iter().copied().min().unwrap_or(0);
                        let j = l.saturating_sub(len).min(k);
                        if j < k {
                            self.ctx.probe("extend-unwind-kept-fewer-than-taken");
                        }
                        self.model.extend(items[..j].iter().copied());
                        self.ctx.fired("unwind@source");
                        if k > 0 {
                            self.ctx.probe("extend-unwind-k>0");
                        }
                        ev!(self.ctx, "{n} extend {cnt} source panicked at {k}");
                        Some("unwound")
                    }
                    (Caught::Ok(()), Some(k)) if k == cnt => {
                        // the source would only have panicked on the poll AFTER its last item: a consumer that
                        // knows it has everything (an exact size hint used up) need not poll again
                        self.model.extend(items.iter().copied());
                        self.ctx.probe("source-not-polled-past-its-end");
                        ev!(self.ctx, "{n} extend {cnt}: the source was not polled past its end");
                        Some("ok")
                    }
                    (Caught::Ok(()), Some(k)) => {
                        self.ctx.fail(
                            "extend-swallowed-panic",
                            &format!("{}:extend", d.name),
                            format!("source was to panic at next() #{k} of {cnt} but extend returned normally"),
                        );
                        None
                    }
                    (Caught::Injected(_), None) => {
                        self.ctx.fail("harness", "injected-without-plan", "injected panic without a plan".into());
                        None
                    }
                    (Caught::Foreign(msg), _) if msg.contains(SOURCE_POLLED_FOREVER) => {
                        self.ctx.fail("no-termination:extend", &format!("{}:extend", d.name), format!("extend({cnt} items, size-hint mode {hint}) never stops polling its source: {msg}"));
                        None
                    }
                    (Caught::Foreign(msg), _) => {
                        self.ctx.fail("panic:extend", &format!("{}:extend", d.name), format!("extend panicked: {msg}"));
                        None
                    }
                }
            }
            Op::Collect { n: cnt, panic_at, hint, gap } => {
                if *hint != 0 {
                    self.ctx.probe("source-with-inexact-size-hint");
                }
                let cnt = *cnt as usize;
                let items: Vec<Item> = (0..cnt).map(|_| self.fresh()).collect();
                let at = panic_at.map(|k| k as usize % (cnt + 1));
                let gap_at = if at.is_none() { gap.map(|g| g as usize % (cnt + 1)) } else { None };
                let taken = std::cell::Cell::new(0usize);
                let r = catch(|| {
                    let mut src = PanicSource { items: &items, pos: 0, panic_at: at, hint: *hint, gap: gap_at };
                    let out = (d.collect)(&mut src);
                    taken.set(src.pos.min(items.len()));
                    out
                });
                match (r, at) {
                    (Caught::Ok(s), None) => {
                        self.sut = Some(s);
                        // the reference is `Vec` itself on an identical source (it stops at the first `None`)
                        let mut src = PanicSource { items: &items, pos: 0, panic_at: None, hint: *hint, gap: gap_at };
                        self.model = Vec::from_iter(&mut src);
                        if gap_at.is_some() {
                            self.ctx.probe("source-that-is-not-fused");
                            if taken.get() != src.pos.min(items.len()) {
                                self.ctx.fail(
                                    "collect-took-items-after-the-source-said-none",
                                    &format!("{}:collect", d.name),
                                    format!("collect took {} of {cnt} items from a source that answered None in front of item {:?}; a vector takes {}", taken.get(), gap_at, src.pos.min(items.len())),
                                );
                                return None;
                            }
                        }
                        self.ctx.changed();
                        ev!(self.ctx, "{n} collect {cnt}");
                        Some("ok")
                    }
                    (Caught::Injected(_), Some(k)) => {
                        // the half-built collection is dropped by the unwinding; nothing to observe
                        self.ctx.fired("unwind@source");
                        ev!(self.ctx, "{n} collect {cnt} source panicked at {k}");
                        Some("unwound")
                    }
                    (Caught::Ok(s), Some(k)) if k == cnt => {
                        self.sut = Some(s);
                        self.model = items;
                        self.ctx.changed();
                        self.ctx.probe("source-not-polled-past-its-end");
                        ev!(self.ctx, "{n} collect {cnt}: the source was not polled past its end");
                        Some("ok")
                    }
                    (Caught::Ok(_), Some(k)) => {
                        self.ctx.fail(
                            "collect-swallowed-panic",
                            &format!("{}:collect", d.name),
                            format!("source was to panic at next() #{k} of {cnt} but collect returned normally"),
                        );
                        None
                    }
                    (Caught::Injected(_), None) => {
                        self.ctx.fail("harness", "injected-without-plan", "injected panic without a plan".into());
                        None
                    }
                    (Caught::Foreign(msg), _) if msg.contains(SOURCE_POLLED_FOREVER) => {
                        self.ctx.fail("no-termination:collect", &format!("{}:collect", d.name), format!("collect({cnt} items, size-hint mode {hint}) never stops polling its source: {msg}"));
                        None
                    }
                    (Caught::Foreign(msg), _) => {
                        self.ctx.fail("panic:collect", &format!("{}:collect", d.name), format!("collect panicked: {msg}"));
                        None
                    }
                }
            }
            Op::Clear => {
                self.sut.as_mut().unwrap().clear();
                self.model.clear();
                self.ctx.changed();
                ev!(self.ctx, "{n} clear");
                Some("ok")
            }
            Op::Len => {
                // every length observer palette offers
                let sut = self.sut.as_ref().unwrap();
                let mut s = vec![];
                let mut m = vec![];
                if let Some(it) = sut.iter() {
                    s.extend(run_sched(it, &[Step::Len, Step::SizeHint], End::Count));
                    m.extend(run_sched(Box::new(ReadIt(self.model.iter(), |x: &Item| *x)), &[Step::Len, Step::SizeHint], End::Count));
                }
                if let Some(it) = sut.get_range(&RangeSpec::Full) {
                    s.extend(run_sched(it, &[Step::Len], End::Count));
                    m.extend(run_sched(Box::new(ReadIt(self.model.iter(), |x: &Item| *x)), &[Step::Len], End::Count));
                } else {
                    s.push(Obs::NoRange);
                }
                ev!(self.ctx, "{n} len -> {len}");
                if self.cmp_traces("len", &s, &m) {
                    return None;
                }
                // the comparing consumers: a sequence equals itself whatever size hint the other side reports, and
                // differs from itself without its first item (unless there is none)
                if let Some(got) = self.sut.as_ref().unwrap().iter_cmp() {
                    let want = [true, true, len == 0, false];
                    self.ctx.checked();
                    self.ctx.probe("iterators-compared-with-eq-and-ne");
                    if got != want {
                        self.ctx.fail(
                            "trace:iterator-eq",
                            &format!("{}:eq", d.name),
                            format!("into_iter().eq(itself), .eq(itself behind filter), .eq(itself.skip(1)), .ne(itself behind filter) = {got:?}, a vector of {len} colors gives {want:?}"),
                        );
                        return None;
                    }
                }
                // the selecting consumers, with a comparator under which many items tie
                if let Some(got) = self.sut.as_ref().unwrap().iter_select() {
                    use adapters::sel_rank;
                    let m = &self.model;
                    let want = [
                        m.iter().copied().max_by(|a, b| sel_rank(a).cmp(&sel_rank(b))),
                        m.iter().copied().min_by(|a, b| sel_rank(a).cmp(&sel_rank(b))),
                        m.iter().copied().max_by_key(sel_rank),
                        m.iter().copied().min_by_key(sel_rank),
                        m.iter().copied().rev().max_by(|a, b| sel_rank(a).cmp(&sel_rank(b))),
                        m.iter().copied().rev().min_by(|a, b| sel_rank(a).cmp(&sel_rank(b))),
                    ];
                    self.ctx.checked();
                    let same = got.iter().zip(want.iter()).all(|(g, w)| match (g, w) {
                        // the type's own equality, and the same item (slot 0 is unique to an item)
                        (Some(g), Some(w)) => (d.eq_items)(*g, *w) && g[0].to_bits() == w[0].to_bits(),
                        (None, None) => true,
                        _ => false,
                    });
                    if !same {
                        self.ctx.fail(
                            "trace:iterator-max-min",
                            &format!("{}:max_by", d.name),
                            format!("max_by, min_by, max_by_key, min_by_key, rev().max_by, rev().min_by over a rank with ties = {got:?}, a vector of the same colors gives {want:?}"),
                        );
                        return None;
                    }
                }
                // the folding and adapting consumers, breaking off in the middle and at the very start
                for k in [len / 2, 0] {
                    if let Some(got) = self.sut.as_ref().unwrap().iter_fold(k) {
                        let m = &self.model;
                        let want = adapters::fold_obs(|| m.iter().copied(), |x: Item| x, k);
                        self.ctx.checked();
                        self.ctx.probe("iterators-folded-reduced-partitioned");
                        let same_items = |g: &Vec<Item>, w: &Vec<Item>| {
                            g.len() == w.len()
                                && g.iter().zip(w.iter()).all(|(g, w)| (d.eq_items)(*g, *w) && g[0].to_bits() == w[0].to_bits())
                        };
                        let names = [
                            "reduce(|_, b| b)", "reduce(|a, _| a)", "rev().reduce(|_, b| b)", "try_fold breaking off, then the rest",
                            "try_rfold breaking off, then the rest", "partition", "step_by", "skip", "rev().skip().step_by(2)",
                            "zip with its reverse", "chain with itself", "take", "last / rev().last / count", "is_sorted_by",
                        ];
                        let bad = (0..got.len().max(want.len())).find(|&i| match (got.get(i), want.get(i)) {
                            (Some(g), Some(w)) => !(same_items(&g.0, &w.0) && g.1 == w.1),
                            _ => true,
                        });
                        if let Some(i) = bad {
                            self.ctx.fail(
                                "trace:iterator-fold",
                                &format!("{}:fold", d.name),
                                format!(
                                    "{} with k = {k} over {len} colors = {:?}, a vector of the same colors gives {:?}",
                                    names.get(i).copied().unwrap_or("?"),
                                    got.get(i),
                                    want.get(i)
                                ),
                            );
                            return None;
                        }
                    }
                }
                Some("ok")
            }
            Op::Get { i, past } => {
                let idx = if *past > 0 { len + *past as usize - 1 } else if len == 0 { 0 } else { *i as usize % len };
                let s = self.sut.as_ref().unwrap().get(idx);
                let m = self.model.get(idx).copied();
                if m.is_none() {
                    self.ctx.probe("get-out-of-range-none");
                }
                ev!(self.ctx, "{n} get({idx}) -> {:?}", m);
                if self.cmp_traces("get", &[Obs::Item(s)], &[Obs::Item(m)]) {
                    return None;
                }
                Some(if m.is_some() { "some" } else { "none" })
            }
            Op::GetRange { r, sched, end } => {
                let spec = r.resolve(len);
                if r.mode == 1 {
                    self.ctx.probe("range-inverted");
                }
                let m = model_get(&self.model, &spec).map(|sl| run_sched(Box::new(ReadIt(sl.iter(), |x: &Item| *x)), sched, *end));
                let sut = self.sut.as_ref().unwrap();
                let s = sut.get_range(&spec).map(|it| run_sched(it, sched, *end));
                self.note_end(*end, sched.len());
                ev!(self.ctx, "{n} get({spec:?}) sched={} -> {}", sched.len(), if m.is_some() { "some" } else { "none" });
                let (s, m) = (s.unwrap_or_else(|| vec![Obs::NoRange]), m.clone().unwrap_or_else(|| vec![Obs::NoRange]));
                if self.cmp_traces("get_range", &s, &m) {
                    return None;
                }
                Some(if m.first() == Some(&Obs::NoRange) { "none" } else { "some" })
            }
            Op::GetMut { i, past, write } => {
                let idx = if *past > 0 { len + *past as usize - 1 } else if len == 0 { 0 } else { *i as usize % len };
                let new = if *write { Some(self.fresh()) } else { None };
                let s = self.sut.as_mut().unwrap().get_mut(idx, new);
                let m = self.model.get_mut(idx).map(|slot| {
                    let old = *slot;
                    if let Some(nv) = new {
                        *slot = nv;
                    }
                    old
                });
                if m.is_some() && *write {
                    self.ctx.changed();
                }
                if m.is_none() {
                    self.ctx.probe("get-out-of-range-none");
                }
                ev!(self.ctx, "{n} get_mut({idx}) write={write} -> {:?}", m);
                if self.cmp_traces("get_mut", &[Obs::Item(s)], &[Obs::Item(m)]) {
                    return None;
                }
                Some(if m.is_some() { "some" } else { "none" })
            }
            Op::GetMutRange { r, sched, end } => {
                let spec = r.resolve(len);
                if r.mode == 1 {
                    self.ctx.probe("range-inverted");
                }
                let sched = self.shape_sched(sched);
                let m = model_get_mut(&mut self.model, &spec)
                    .map(|sl| run_sched(Box::new(WriteIt(sl.iter_mut(), |x: &&mut Item| **x, |x: &mut &mut Item, v: Item| **x = v)), &sched, *end));
                let s = self.sut.as_mut().unwrap().get_mut_range(&spec).map(|it| run_sched(it, &sched, *end));
                self.note_end(*end, sched.len());
                if m.is_some() {
                    self.ctx.changed();
                }
                ev!(self.ctx, "{n} get_mut({spec:?}) sched={} -> {}", sched.len(), if m.is_some() { "some" } else { "none" });
                let (s, m) = (s.unwrap_or_else(|| vec![Obs::NoRange]), m.unwrap_or_else(|| vec![Obs::NoRange]));
                if self.cmp_traces("get_mut_range", &s, &m) {
                    return None;
                }
                Some(if m.first() == Some(&Obs::NoRange) { "none" } else { "some" })
            }
            Op::Iter { sched, end } => {
                if !d.can_iterate {
                    return Some("unsupported");
                }
                let m = run_sched(Box::new(ReadIt(self.model.iter(), |x: &Item| *x)), sched, *end);
                let s = run_sched(self.sut.as_ref().unwrap().iter().unwrap(), sched, *end);
                self.note_end(*end, sched.len());
                self.note_middle(sched, len);
                ev!(self.ctx, "{n} iter sched={} end={end:?}", sched.len());
                if self.cmp_traces("iter", &s, &m) {
                    return None;
                }
                Some("ok")
            }
            Op::IterMut { sched, end } => {
                if !d.can_iterate {
                    return Some("unsupported");
                }
                let sched = self.shape_sched(sched);
                let has_panic = sched.contains(&Step::Panic);
                let model = &mut self.model;
                let mr = catch(|| run_sched(Box::new(WriteIt(model.iter_mut(), |x: &&mut Item| **x, |x: &mut &mut Item, v: Item| **x = v)), &sched, *end));
                let m = match mr {
                    Caught::Ok(t) => t,
                    Caught::Injected(_) => take_sched_trace(),
                    Caught::Foreign(msg) => {
                        self.ctx.fail("harness", "model-panic", format!("model panicked: {msg}"));
                        return None;
                    }
                };
                let sut = self.sut.as_mut().unwrap();
                let sr = catch(|| run_sched(sut.iter_mut().unwrap(), &sched, *end));
                let s = match sr {
                    Caught::Ok(t) => t,
                    Caught::Injected(_) => {
                        self.ctx.fired("unwind@loop-body");
                        let t = take_sched_trace();
                        if sched.iter().take_while(|s| **s != Step::Panic).any(|s| matches!(s, Step::NextSet(_) | Step::NextBackSet(_))) {
                            self.ctx.probe("iter_mut-unwind-after-write");
                        }
                        t
                    }
                    Caught::Foreign(msg) => {
                        self.ctx.fail("panic:iter_mut", &format!("{}:iter_mut", d.name), format!("iter_mut panicked: {msg}"));
                        return None;
                    }
                };
                self.ctx.changed();
                self.note_end(*end, sched.len());
                self.note_middle(&sched, len);
                ev!(self.ctx, "{n} iter_mut sched={} end={end:?} panic={has_panic}", sched.len());
                if self.cmp_traces("iter_mut", &s, &m) {
                    return None;
                }
                Some(if has_panic { "unwound" } else { "ok" })
            }
            Op::Drain { r, sched, end } => {
                let spec = r.resolve(len);
                if r.mode == 1 {
                    self.ctx.probe("range-inverted");
                }
                let has_panic = sched.contains(&Step::Panic);
                // model first: std decides whether the range is acceptable
                let model = &mut self.model;
                let mr = catch(|| {
                    let it: Box<dyn It + '_> = adapters::with_range!(&spec, |r| Box::new(ReadIt(model.drain(r), |x: Item| x)));
                    run_sched(it, sched, *end)
                });
                let sut = self.sut.as_mut().unwrap();
                let sr = catch(|| run_sched(sut.drain(&spec), sched, *end));
                self.ctx.changed();
                let (m, s, outcome) = match (mr, sr) {
                    (Caught::Ok(m), Caught::Ok(s)) => (m, s, "ok"),
                    (Caught::Injected(_), Caught::Injected(_)) => {
                        // both were interrupted by the planned loop-body panic: the
                        // traces up to the panic were stored in the same slot, so
                        // only the SUT's survives; compare state only
                        let _ = take_sched_trace();
                        self.ctx.fired("unwind@loop-body");
                        (vec![], vec![], "unwound")
                    }
                    (Caught::Foreign(mm), Caught::Foreign(_sm)) => {
                        // std rejects the range; so must palette (and both stay equal, checked below)
                        self.ctx.fired("contract-panic");
                        self.ctx.probe("drain-contract-panic");
                        ev!(self.ctx, "{n} drain({spec:?}) contract panic: {}", first_words(&mm));
                        (vec![], vec![], "contract-panic")
                    }
                    (Caught::Foreign(mm), Caught::Ok(s)) => {
                        self.ctx.fail(
                            "drain-contract",
                            &format!("{}:drain", d.name),
                            format!("Vec::drain({spec:?}) panics ({}) but the color collection returned {s:?}", first_words(&mm)),
                        );
                        return None;
                    }
                    (Caught::Ok(_), Caught::Foreign(sm)) => {
                        self.ctx.fail(
                            "drain-contract",
                            &format!("{}:drain", d.name),
                            format!("Vec::drain({spec:?}) is fine but the color collection panicked: {sm}"),
                        );
                        return None;
                    }
                    (a, b) => {
                        self.ctx.fail(
                            "drain-contract",
                            &format!("{}:drain", d.name),
                            format!("drain({spec:?}): model and collection disagree on how the call ended ({} vs {})", caught_name(&a), caught_name(&b)),
                        );
                        return None;
                    }
                };
                let range_len = yielded(&s).len();
                if outcome == "ok" {
                    if *end == End::Forget {
                        // leak: std leaves the amount lost unspecified. Demand equal
                        // component lengths (below, against the re-synchronised model)
                        // and an intact prefix, then re-synchronise.
                        self.ctx.fired("leak");
                        self.ctx.probe("drain-forgotten");
                        let lens = self.sut.as_ref().unwrap().lens();
                        let k = lens.iter().copied().min().unwrap_or(0);
                        self.ctx.checked();
                        if lens.iter().any(|l| *l != k) {
                            self.ctx.fail(
                                "lengths:drain-forget",
                                &format!("{}:drain", d.name),
                                format!("component lengths {lens:?} after a forgotten drain"),
                            );
                            return None;
                        }
                        self.ctx.extra("leaked-drain-len-equals-model", (k == self.model.len()) as u64);
                        let mut resynced = Vec::with_capacity(k);
                        for i in 0..k {
                            match self.sut.as_ref().unwrap().get(i) {
                                Some(x) => resynced.push(x),
                                None => {
                                    self.ctx.fail("contents:drain-forget", &format!("{}:drain", d.name), format!("get({i}) is None below the common length {k}"));
                                    return None;
                                }
                            }
                        }
                        let start = match &spec {
                            RangeSpec::Full | RangeSpec::To(_) | RangeSpec::ToIncl(_) => 0,
                            RangeSpec::From(a) | RangeSpec::Range(a, _) | RangeSpec::Incl(a, _) => *a,
                            RangeSpec::Bounds(a, _) => match a {
                                B::Inc(a) => *a,
                                B::Exc(a) => a + 1,
                                B::Unb => 0,
                            },
                        };
                        let pre = start.min(k).min(self.model.len());
                        for i in 0..pre {
                            if !self.same(&resynced[i], &self.model[i]) {
                                self.ctx.fail(
                                    "contents:drain-forget",
                                    &format!("{}:drain", d.name),
                                    format!("prefix element {i} changed by a forgotten drain: sut={:?} model={:?}", resynced[i], self.model[i]),
                                );
                                return None;
                            }
                        }
                        self.model = resynced;
                    } else if sched.len() > 0 && range_len > 0 && *end == End::Drop {
                        self.ctx.fired("cancel");
                        self.last_drain_partial = true;
                    }
                    if model_range_len(&spec, len) == Some(0) {
                        self.ctx.probe("drain-empty-range");
                    }
                    self.note_middle(sched, model_range_len(&spec, len).unwrap_or(0));
                }
                ev!(self.ctx, "{n} drain({spec:?}) sched={} end={end:?} panic={has_panic} -> {outcome} len={}", sched.len(), self.model.len());
                if self.cmp_traces("drain", &s, &m) {
                    return None;
                }
                Some(outcome)
            }
            Op::IntoIter { sched, end } => {
                if !d.can_iterate {
                    return Some("unsupported");
                }
                let model = std::mem::take(&mut self.model);
                let sut = self.sut.take().unwrap();
                // full yield order is needed to rebuild, so record everything that was yielded
                let m = run_sched(Box::new(ReadIt(model.into_iter(), |x: Item| x)), sched, *end);
                let s = run_sched(sut.into_iter().unwrap(), sched, *end);
                self.note_end(*end, sched.len());
                self.note_middle(sched, len);
                self.ctx.changed();
                // rebuild from what the SUT yielded (collect), model from what the model yielded
                let ys: Vec<Item> = yielded(&s);
                let ym: Vec<Item> = yielded(&m);
                let mut src = ys.into_iter();
                self.sut = Some((d.collect)(&mut src));
                self.model = ym;
                ev!(self.ctx, "{n} into_iter sched={} end={end:?} rebuilt len={}", sched.len(), self.model.len());
                if self.cmp_traces("into_iter", &s, &m) {
                    return None;
                }
                Some("ok")
            }
            Op::Snap { form, action, i, r, sched, end, more } => {
                let form = match form {
                    Form::Array(nn) => {
                        // the largest supported N not above the current length
                        let best = [5usize, 2, 1, 0].into_iter().find(|x| *x <= len && *x <= *nn).unwrap_or(0);
                        Form::Array(best)
                    }
                    f => *f,
                };
                let flen = if let Form::Array(nn) = form { nn } else { len };
                // the actions, in order; a by-value `into_iter` consumes the form (except `&[T]`, which is
                // `Copy`), so it can only come last: an earlier one becomes a borrowed `iter`
                let mut specs: Vec<(u8, u16, RangeGen, &Vec<Step>, End)> = vec![(*action, *i, *r, sched, *end)];
                for m in more {
                    specs.push((m.action, m.i, m.r, &m.sched, m.end));
                }
                let last = specs.len() - 1;
                let mut acts: Vec<SnapAction> = Vec::new();
                for (k, (action, i, r, sched, end)) in specs.iter().enumerate() {
                    let spec = r.resolve(flen);
                    let idx = if flen == 0 || *i % 5 == 4 { flen + (*i as usize % 3) } else { *i as usize % flen };
                    let sched_w = self.shape_sched(sched);
                    let sched_r: Vec<Step> = sched.iter().copied().filter(|s| !matches!(s, Step::NextSet(_) | Step::NextBackSet(_))).collect();
                    let newv = self.make(900_000 + (n as u32) * 4 + k as u32);
                    let mut a = action % 8;
                    if a == 3 && k != last && form != Form::Slice {
                        a = 0;
                    }
                    acts.push(match a {
                        0 => SnapAction::Iter(sched_r.clone(), *end),
                        1 => SnapAction::IterMethod(sched_r.clone(), *end),
                        2 => SnapAction::IterMut(sched_w.clone(), *end),
                        3 => SnapAction::IntoIter(if form == Form::MutSlice { sched_w.clone() } else { sched_r.clone() }, *end),
                        4 => SnapAction::Get(idx),
                        5 => SnapAction::GetRange(spec.clone(), sched_r.clone(), *end),
                        6 => SnapAction::GetMut(idx, newv),
                        _ => SnapAction::GetMutRange(spec.clone(), sched_w.clone(), *end),
                    });
                }
                let Some(res) = self.sut.as_ref().unwrap().snap(form, &acts) else {
                    return Some("unsupported");
                };
                if acts.len() > 1 {
                    self.ctx.probe("snap-several-actions-on-one-form");
                }
                // the same actions on a copy of the model
                let mut copy: Vec<Item> = self.model[..flen].to_vec();
                let mut consumed = false;
                let mut m: Vec<Obs> = Vec::new();
                for act in acts.iter() {
                    let t: Vec<Obs> = match act {
                        SnapAction::Iter(s, e) | SnapAction::IterMethod(s, e) => run_sched(Box::new(ReadIt(copy.iter(), |x: &Item| *x)), s, *e),
                        SnapAction::IterMut(s, e) => run_sched(Box::new(WriteIt(copy.iter_mut(), |x: &&mut Item| **x, |x: &mut &mut Item, v: Item| **x = v)), s, *e),
                        SnapAction::IntoIter(s, e) => match form {
                            Form::MutSlice => {
                                consumed = true;
                                run_sched(Box::new(WriteIt(copy.iter_mut(), |x: &&mut Item| **x, |x: &mut &mut Item, v: Item| **x = v)), s, *e)
                            }
                            Form::Slice => run_sched(Box::new(ReadIt(copy.iter(), |x: &Item| *x)), s, *e),
                            _ => {
                                consumed = true;
                                run_sched(Box::new(ReadIt(std::mem::take(&mut copy).into_iter(), |x: Item| x)), s, *e)
                            }
                        },
                        SnapAction::Get(i) => vec![Obs::Item(copy.get(*i).copied())],
                        SnapAction::GetRange(r, s, e) => match model_get(&copy, r) {
                            None => vec![Obs::NoRange],
                            Some(sl) => run_sched(Box::new(ReadIt(sl.iter(), |x: &Item| *x)), s, *e),
                        },
                        SnapAction::GetMut(i, nv) => vec![Obs::Item(copy.get_mut(*i).map(|slot| {
                            let old = *slot;
                            *slot = *nv;
                            old
                        }))],
                        SnapAction::GetMutRange(r, s, e) => match model_get_mut(&mut copy, r) {
                            None => vec![Obs::NoRange],
                            Some(sl) => run_sched(Box::new(WriteIt(sl.iter_mut(), |x: &&mut Item| **x, |x: &mut &mut Item, v: Item| **x = v)), s, *e),
                        },
                    };
                    m.extend(t);
                    if consumed {
                        break;
                    }
                    m.push(Obs::Sep);
                }
                if !consumed {
                    // what the form shows through itself afterwards
                    m.push(Obs::Items(copy.clone()));
                    m.push(Obs::Len(copy.len()));
                }
                let mutslice_consumed = consumed && form == Form::MutSlice;
                ev!(self.ctx, "{n} snap {form:?} actions={:?} len={flen}", specs.iter().map(|x| x.0 % 8).collect::<Vec<_>>());
                if self.cmp_traces(op.kind(), &res.trace, &m) {
                    return None;
                }
                if let (Some(after), true) = (res.after, !consumed || mutslice_consumed) {
                    self.ctx.checked();
                    let same = after.len() == copy.len() && after.iter().zip(copy.iter()).all(|(a, b)| self.same(a, b));
                    if !same {
                        self.ctx.fail(
                            &format!("contents:{}", op.kind()),
                            &format!("{}:{}", d.name, op.kind()),
                            format!("storage under the form after actions {:?}: sut={after:?} model={copy:?}", specs.iter().map(|x| x.0 % 8).collect::<Vec<_>>()),
                        );
                        return None;
                    }
                }
                Some("ok")
            }
        }
    }

    /// Bring the items written by a schedule to this type's shape.
    fn shape_sched(&self, sched: &[Step]) -> Vec<Step> {
        sched.to_vec()
    }

    fn note_end(&mut self, end: End, sched_len: usize) {
        match end {
            End::Forget => self.ctx.fired("leak"),
            End::Drop if sched_len > 0 => self.ctx.fired("cancel"),
            End::Adapt { rev: true, skip, step } if skip > 0 || step > 1 => self.ctx.probe("rev-then-skip-or-step_by"),
            End::Last | End::Fold | End::RFold | End::ForEach => self.ctx.probe("last-fold-rfold"),
            _ => {}
        }
    }

    fn note_middle(&mut self, sched: &[Step], len: usize) {
        let fronts = sched.iter().filter(|s| matches!(s, Step::Next | Step::NextSet(_))).count();
        let backs = sched.iter().filter(|s| matches!(s, Step::NextBack | Step::NextBackSet(_))).count();
        if fronts > 0 && backs > 0 && fronts + backs > len {
            self.ctx.probe("iter-met-in-middle");
        }
        if len > 1 && sched.iter().any(|s| matches!(s, Step::NthBack(n) if *n >= 1 && (*n as usize) < len)) {
            self.ctx.probe("nth_back-jump-inside");
        }
    }
}

fn caught_name<T>(c: &Caught<T>) -> &'static str {
    match c {
        Caught::Ok(_) => "returned",
        Caught::Injected(_) => "injected panic",
        Caught::Foreign(_) => "panic",
    }
}

fn first_words(s: &str) -> String {
    // panic messages of std contain the offending numbers, not addresses; keep
    // the message but drop the source location (it names the toolchain path)
    s.split(" @ ").next().unwrap_or("").to_string()
}

const SOURCE_POLL_CAP: usize = 4096;
const SOURCE_POLLED_FOREVER: &str = "palsim: the source of extend/collect was polled more than 4096 times after it had returned None";

struct PanicSource<'a> {
    items: &'a [Item],
    pos: usize,
    panic_at: Option<usize>,
    /// see `Op::Extend`
    hint: u8,
    /// not fused: one `None` in front of this item, then the rest (see `Op::Extend`)
    gap: Option<usize>,
}

impl<'a> Iterator for PanicSource<'a> {
    type Item = Item;
    fn next(&mut self) -> Option<Item> {
        if self.panic_at == Some(self.pos) {
            inject_panic(18);
        }
        if self.gap == Some(self.pos) {
            self.gap = None;
            return None;
        }
        let r = self.items.get(self.pos).copied();
        self.pos += 1;
        // a consumer that keeps polling a source long after it has ended will never stop: end the
        // conversation here (reported as `no-termination`) instead of waiting for the watchdog
        if self.pos > self.items.len() + SOURCE_POLL_CAP {
            panic!("{}", SOURCE_POLLED_FOREVER);
        }
        r
    }
    fn size_hint(&self) -> (usize, Option<usize>) {
        // what is left before the next `None`
        let n = match self.gap {
            Some(g) => g.saturating_sub(self.pos),
            None => self.items.len().saturating_sub(self.pos),
        };
        match self.hint {
            1 => (0, None),
            2 => (0, Some(n)),
            3 => (n / 2, Some(n + 3)),
            4 => (n, None),
            _ => (n, Some(n)),
        }
    }
}

fn model_get<'a>(m: &'a [Item], spec: &RangeSpec) -> Option<&'a [Item]> {
    adapters::with_range!(spec, |r| m.get(r))
}

fn model_get_mut<'a>(m: &'a mut [Item], spec: &RangeSpec) -> Option<&'a mut [Item]> {
    adapters::with_range!(spec, |r| m.get_mut(r))
}

fn model_range_len(spec: &RangeSpec, len: usize) -> Option<usize> {
    let v = vec![(); len];
    adapters::with_range!(spec, |r| v.get(r).map(|s| s.len()))
}
