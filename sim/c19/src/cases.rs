//! One adapter per (color type, f32 | f64, plain | alpha): builds the real
//! `Standard` / `Uniform` / `sample_single` distributions of palette on top of
//! the real `rand 0.8` and feeds them from the simulated entropy source.

use super::simrng::SimRng;
use crate::types::*;
use palette::hues::Cam16Hue;
use palette::{Alpha, IsWithinBounds, LabHue, LuvHue, OklabHue, RgbHue};
use rand::distributions::uniform::{SampleUniform, Uniform, UniformSampler};
use rand::distributions::{Distribution, Standard};
use rand::Rng;

#[derive(Clone, Copy, Debug, PartialEq)]
pub enum Kind {
    /// passes straight through rand's Uniform
    Lin,
    Hue,
    /// cylinder radius: sqrt of a uniform squared radius
    CylR,
    /// cone height (HSV value): cbrt of a uniform cube
    ConeH,
    /// cone / bicone radius (saturation): sqrt of a uniform square; the factor is the component's scale
    ConeR(f64),
    /// bicone height (HSL lightness); the factor is the component's scale (100 for HSLuv)
    BiH(f64),
    /// HWB whiteness / blackness: judged through the equivalent HSV saturation and value
    HwbW,
    HwbB,
    Alpha,
}

#[derive(Clone, Copy, Debug, PartialEq, Eq)]
pub enum DistKind {
    Standard,
    Uniform { inclusive: bool },
    /// `UniformSampler::sample_single` / `sample_single_inclusive` (what `gen_range` uses)
    Single { inclusive: bool },
}

pub struct Request {
    pub dist: DistKind,
    pub lo: [f64; 4],
    pub hi: [f64; 4],
    pub n: usize,
}

pub struct Sample {
    pub comps: [f64; 4],
    pub within: Option<bool>,
}

/// The end points as the sampler really got them (rounded to the component type).
#[derive(Clone, Copy, Debug)]
pub struct Ends {
    pub lo: [f64; 4],
    pub hi: [f64; 4],
}

pub struct CaseDesc {
    pub name: &'static str,
    pub color: &'static str,
    pub shape: &'static str,
    pub float: &'static str,
    pub alpha: bool,
    pub n: usize,
    pub kinds: [Kind; 4],
    /// nominal domain of each component (the space's bounds); used to draw end
    /// points and as the explicit range for `Standard` where `exact` is set
    pub dom: [(f64, f64); 4],
    pub exact: [bool; 4],
    pub eps: f64,
    pub run: fn(&Request, &mut SimRng, &mut dyn FnMut(Sample)) -> Ends,
}

pub trait Fl: Copy + Into<f64> + 'static {
    /// the other float width (for alpha of another scalar type than the color's)
    type Other: Fl;
    fn narrow(x: f64) -> Self;
}
impl Fl for f32 {
    type Other = f64;
    fn narrow(x: f64) -> f32 {
        x as f32
    }
}
impl Fl for f64 {
    type Other = f32;
    fn narrow(x: f64) -> f64 {
        x
    }
}

fn widen<T: Fl>(a: [T; 4]) -> [f64; 4] {
    [a[0].into(), a[1].into(), a[2].into(), a[3].into()]
}

fn narrow<T: Fl>(a: [f64; 4]) -> [T; 4] {
    [T::narrow(a[0]), T::narrow(a[1]), T::narrow(a[2]), T::narrow(a[3])]
}

/// "Clone this sampler if its type happens to be `Clone`" — decided at compile time where the type is concrete
/// (autoref dispatch: the `Clone`-bounded impl is found one auto-reference earlier than the fallback). On the current
/// tree palette's samplers are not `Clone`, so `Uniform<Color>` is not either and this answers `None`; a palette
/// that makes them cloneable gets every other sample drawn from the clone.
pub struct CloneProbe<'a, U>(pub &'a U);
pub trait ViaClone<U> {
    fn palsim_try_clone(&self) -> Option<U>;
}
impl<'a, U: Clone> ViaClone<U> for CloneProbe<'a, U> {
    fn palsim_try_clone(&self) -> Option<U> {
        Some(self.0.clone())
    }
}
pub trait ViaNothing<U> {
    fn palsim_try_clone(&self) -> Option<U>;
}
impl<'a, 'b, U> ViaNothing<U> for &'b CloneProbe<'a, U> {
    fn palsim_try_clone(&self) -> Option<U> {
        None
    }
}
/// Expands, for a concrete color type, to a `fn(&Uniform<C>) -> Option<Uniform<C>>`.
macro_rules! try_clone_fn {
    ($c:ty) => {{
        fn f(u: &Uniform<$c>) -> Option<Uniform<$c>> {
            #[allow(unused_imports)]
            use $crate::cases::{ViaClone, ViaNothing};
            (&$crate::cases::CloneProbe(u)).palsim_try_clone()
        }
        f as fn(&Uniform<$c>) -> Option<Uniform<$c>>
    }};
}

thread_local! {
    /// how many samples of the running plan were drawn from a cloned sampler
    pub static FROM_CLONE: std::cell::Cell<u64> = const { std::cell::Cell::new(0) };
}

pub fn run_generic<C, T>(
    mk: fn([T; 4]) -> C,
    get: fn(&C) -> [T; 4],
    within: fn(&C) -> Option<bool>,
    try_clone: fn(&Uniform<C>) -> Option<Uniform<C>>,
    req: &Request,
    rng: &mut SimRng,
    sink: &mut dyn FnMut(Sample),
) -> Ends
where
    T: Fl,
    C: SampleUniform + Clone,
    Standard: Distribution<C>,
{
    let lo_t: [T; 4] = narrow(req.lo);
    let hi_t: [T; 4] = narrow(req.hi);
    let ends = Ends { lo: widen(lo_t), hi: widen(hi_t) };
    let mut emit = |c: &C| sink(Sample { comps: widen(get(c)), within: within(c) });
    match req.dist {
        DistKind::Standard => {
            for _ in 0..req.n {
                rng.mark();
                let c: C = rng.gen();
                emit(&c);
            }
        }
        DistKind::Uniform { inclusive } => {
            let (lo, hi) = (mk(lo_t), mk(hi_t));
            let u = if inclusive { Uniform::new_inclusive(lo, hi) } else { Uniform::new(lo, hi) };
            let copy = try_clone(&u);
            for i in 0..req.n {
                rng.mark();
                let c = match &copy {
                    Some(v) if i % 2 == 1 => {
                        FROM_CLONE.with(|n| n.set(n.get() + 1));
                        v.sample(rng)
                    }
                    _ => u.sample(rng),
                };
                emit(&c);
            }
        }
        DistKind::Single { inclusive } => {
            let (lo, hi) = (mk(lo_t), mk(hi_t));
            for _ in 0..req.n {
                rng.mark();
                let c = if inclusive {
                    <C::Sampler as UniformSampler>::sample_single_inclusive(lo.clone(), hi.clone(), rng)
                } else {
                    <C::Sampler as UniformSampler>::sample_single(lo.clone(), hi.clone(), rng)
                };
                emit(&c);
            }
        }
    }
    ends
}

/// The same for a type whose slots do not all have one float width (alpha of another scalar type): values
/// travel as `f64`, `round` says what each slot really stores.
pub fn run_mixed<C>(
    mk: fn([f64; 4]) -> C,
    get: fn(&C) -> [f64; 4],
    round: fn([f64; 4]) -> [f64; 4],
    within: fn(&C) -> Option<bool>,
    try_clone: fn(&Uniform<C>) -> Option<Uniform<C>>,
    req: &Request,
    rng: &mut SimRng,
    sink: &mut dyn FnMut(Sample),
) -> Ends
where
    C: SampleUniform + Clone,
    Standard: Distribution<C>,
{
    let ends = Ends { lo: round(req.lo), hi: round(req.hi) };
    let mut emit = |c: &C| sink(Sample { comps: get(c), within: within(c) });
    match req.dist {
        DistKind::Standard => {
            for _ in 0..req.n {
                rng.mark();
                let c: C = rng.gen();
                emit(&c);
            }
        }
        DistKind::Uniform { inclusive } => {
            let (lo, hi) = (mk(req.lo), mk(req.hi));
            let u = if inclusive { Uniform::new_inclusive(lo, hi) } else { Uniform::new(lo, hi) };
            let copy = try_clone(&u);
            for i in 0..req.n {
                rng.mark();
                let c = match &copy {
                    Some(v) if i % 2 == 1 => {
                        FROM_CLONE.with(|n| n.set(n.get() + 1));
                        v.sample(rng)
                    }
                    _ => u.sample(rng),
                };
                emit(&c);
            }
        }
        DistKind::Single { inclusive } => {
            let (lo, hi) = (mk(req.lo), mk(req.hi));
            for _ in 0..req.n {
                rng.mark();
                let c = if inclusive {
                    <C::Sampler as UniformSampler>::sample_single_inclusive(lo.clone(), hi.clone(), rng)
                } else {
                    <C::Sampler as UniformSampler>::sample_single(lo.clone(), hi.clone(), rng)
                };
                emit(&c);
            }
        }
    }
    ends
}

macro_rules! case_body {
    ($name:literal, $shape:literal, $c:ident, $n:expr, $fl:literal, $eps:expr,
     |$a:ident| $mk:expr, |$g:ident| [$($get:expr),+], [$($k:expr),+], [$($d:expr),+], [$($e:expr),+]) => {
        use super::super::*;
        type Col = $c<T>;
        fn mk($a: [T; 4]) -> Col {
            $mk
        }
        fn get($g: &Col) -> [T; 4] {
            let vals = [$($get),+];
            let mut out = [0.0 as T; 4];
            out[..vals.len()].copy_from_slice(&vals);
            out
        }
        fn mk_a(a: [T; 4]) -> Alpha<Col, T> {
            Alpha { color: mk(a), alpha: a[$n] }
        }
        fn get_a(c: &Alpha<Col, T>) -> [T; 4] {
            let mut o = get(&c.color);
            o[$n] = c.alpha;
            o
        }
        fn within(c: &Col) -> Option<bool> {
            Some(c.is_within_bounds())
        }
        fn within_a(c: &Alpha<Col, T>) -> Option<bool> {
            // `Alpha<C, f32>` has no `IsWithinBounds` of its own (the impl asks for `T: IsWithinBounds`): this
            // resolves through `Deref` to the color. The alpha component is judged separately (0..=1).
            Some(c.color.is_within_bounds())
        }
        // alpha of the other float width than the color's components
        type O = <T as Fl>::Other;
        fn mk_m(a: [f64; 4]) -> Alpha<Col, O> {
            Alpha { color: mk(narrow(a)), alpha: <O as Fl>::narrow(a[$n]) }
        }
        fn get_m(c: &Alpha<Col, O>) -> [f64; 4] {
            let mut o = widen(get(&c.color));
            o[$n] = c.alpha.into();
            o
        }
        fn round_m(a: [f64; 4]) -> [f64; 4] {
            let mut o = widen(narrow::<T>(a));
            o[$n] = <O as Fl>::narrow(a[$n]).into();
            o
        }
        fn within_m(c: &Alpha<Col, O>) -> Option<bool> {
            Some(c.color.is_within_bounds())
        }
        fn run_m(req: &Request, rng: &mut SimRng, sink: &mut dyn FnMut(Sample)) -> Ends {
            run_mixed::<Alpha<Col, O>>(mk_m, get_m, round_m, within_m, try_clone_fn!(Alpha<Col, O>), req, rng, sink)
        }
        fn run(req: &Request, rng: &mut SimRng, sink: &mut dyn FnMut(Sample)) -> Ends {
            run_generic::<Col, T>(mk, get, within, try_clone_fn!(Col), req, rng, sink)
        }
        fn run_a(req: &Request, rng: &mut SimRng, sink: &mut dyn FnMut(Sample)) -> Ends {
            run_generic::<Alpha<Col, T>, T>(mk_a, get_a, within_a, try_clone_fn!(Alpha<Col, T>), req, rng, sink)
        }
        const fn pad_k(k: &[Kind], alpha: bool) -> [Kind; 4] {
            let mut out = [Kind::Lin; 4];
            let mut i = 0;
            while i < k.len() {
                out[i] = k[i];
                i += 1;
            }
            if alpha {
                out[k.len()] = Kind::Alpha;
            }
            out
        }
        const fn pad_d(d: &[(f64, f64)]) -> [(f64, f64); 4] {
            let mut out = [(0.0, 1.0); 4];
            let mut i = 0;
            while i < d.len() {
                out[i] = d[i];
                i += 1;
            }
            out
        }
        const fn pad_e(d: &[bool], alpha: bool) -> [bool; 4] {
            let mut out = [false; 4];
            let mut i = 0;
            while i < d.len() {
                out[i] = d[i];
                i += 1;
            }
            if alpha {
                out[d.len()] = true;
            }
            out
        }
        pub static DESCS: [CaseDesc; 3] = [
            CaseDesc {
                name: concat!($name, "<", $fl, ">"),
                color: $name,
                shape: $shape,
                float: $fl,
                alpha: false,
                n: $n,
                kinds: pad_k(&[$($k),+], false),
                dom: pad_d(&[$($d),+]),
                exact: pad_e(&[$($e),+], false),
                eps: $eps,
                run,
            },
            CaseDesc {
                name: concat!("Alpha<", $name, "<", $fl, ">>"),
                color: $name,
                shape: $shape,
                float: $fl,
                alpha: true,
                n: $n + 1,
                kinds: pad_k(&[$($k),+], true),
                dom: pad_d(&[$($d),+]),
                exact: pad_e(&[$($e),+], true),
                eps: $eps,
                run: run_a,
            },
            // ends are drawn at f32 resolution and judged with f32 tolerances whichever of the two widths the color
            // has: both are sound for the wider slots, and the plain cases above judge those sharply
            CaseDesc {
                name: concat!("Alpha<", $name, "<", $fl, ">, other float>"),
                color: $name,
                shape: $shape,
                float: "f32",
                alpha: true,
                n: $n + 1,
                kinds: pad_k(&[$($k),+], true),
                dom: pad_d(&[$($d),+]),
                exact: pad_e(&[$($e),+], true),
                eps: f32::EPSILON as f64,
                run: run_m,
            },
        ];
    };
}

macro_rules! color_case {
    ($m:ident, $name:literal, $shape:literal, $c:ident, n: $n:expr,
     mk: |$a:ident| $mk:expr, get: |$g:ident| [$($get:expr),+],
     kinds: [$($k:expr),+], dom: [$($d:expr),+], exact: [$($e:expr),+]) => {
        pub mod $m {
            pub mod f32_ {
                type T = f32;
                case_body!($name, $shape, $c, $n, "f32", f32::EPSILON as f64, |$a| $mk, |$g| [$($get),+], [$($k),+], [$($d),+], [$($e),+]);
            }
            pub mod f64_ {
                type T = f64;
                case_body!($name, $shape, $c, $n, "f64", f64::EPSILON, |$a| $mk, |$g| [$($get),+], [$($k),+], [$($d),+], [$($e),+]);
            }
        }
    };
}

macro_rules! hue_case {
    ($m:ident, $name:literal, $h:ident) => {
        pub mod $m {
            use super::*;
            fn run32(req: &Request, rng: &mut SimRng, sink: &mut dyn FnMut(Sample)) -> Ends {
                run_generic::<$h<f32>, f32>(|a| $h::new(a[0]), |h| [h.into_raw_degrees(), 0.0, 0.0, 0.0], |_| None, try_clone_fn!($h<f32>), req, rng, sink)
            }
            fn run64(req: &Request, rng: &mut SimRng, sink: &mut dyn FnMut(Sample)) -> Ends {
                run_generic::<$h<f64>, f64>(|a| $h::new(a[0]), |h| [h.into_raw_degrees(), 0.0, 0.0, 0.0], |_| None, try_clone_fn!($h<f64>), req, rng, sink)
            }
            pub static DESCS: [CaseDesc; 2] = [
                CaseDesc {
                    name: concat!($name, "<f32>"),
                    color: $name,
                    shape: "hue",
                    float: "f32",
                    alpha: false,
                    n: 1,
                    kinds: [Kind::Hue, Kind::Lin, Kind::Lin, Kind::Lin],
                    dom: [(0.0, 360.0), (0.0, 1.0), (0.0, 1.0), (0.0, 1.0)],
                    exact: [true, false, false, false],
                    eps: f32::EPSILON as f64,
                    run: run32,
                },
                CaseDesc {
                    name: concat!($name, "<f64>"),
                    color: $name,
                    shape: "hue",
                    float: "f64",
                    alpha: false,
                    n: 1,
                    kinds: [Kind::Hue, Kind::Lin, Kind::Lin, Kind::Lin],
                    dom: [(0.0, 360.0), (0.0, 1.0), (0.0, 1.0), (0.0, 1.0)],
                    exact: [true, false, false, false],
                    eps: f64::EPSILON,
                    run: run64,
                },
            ];
        }
    };
}

use Kind::*;

const H: (f64, f64) = (0.0, 360.0);
const U: (f64, f64) = (0.0, 1.0);

// ---- cartesian
color_case!(rgb, "Rgb", "cartesian", RgbC, n: 3,
    mk: |a| RgbC::<T>::new(a[0], a[1], a[2]), get: |c| [c.red, c.green, c.blue],
    kinds: [Lin, Lin, Lin], dom: [U, U, U], exact: [true, true, true]);
color_case!(luma, "Luma", "cartesian", LumaC, n: 1,
    mk: |a| LumaC::<T>::new(a[0]), get: |c| [c.luma],
    kinds: [Lin], dom: [U], exact: [true]);
color_case!(xyz, "Xyz", "cartesian", XyzC, n: 3,
    mk: |a| XyzC::<T>::new(a[0], a[1], a[2]), get: |c| [c.x, c.y, c.z],
    kinds: [Lin, Lin, Lin], dom: [(0.0, 0.95047), (0.0, 1.0), (0.0, 1.08883)], exact: [true, true, true]);
/// A second white point: `Xyz`'s Standard distribution and its bounds both depend on `Wp::get_xyz()`, so
/// a constant that should have been the white point only shows under another one.
pub type XyzD50C<T> = palette::Xyz<palette::white_point::D50, T>;
color_case!(xyz_d50, "Xyz<D50>", "cartesian", XyzD50C, n: 3,
    mk: |a| XyzD50C::<T>::new(a[0], a[1], a[2]), get: |c| [c.x, c.y, c.z],
    kinds: [Lin, Lin, Lin], dom: [(0.0, 0.96422), (0.0, 1.0), (0.0, 0.82521)], exact: [true, true, true]);
color_case!(yxy, "Yxy", "cartesian", YxyC, n: 3,
    mk: |a| YxyC::<T>::new(a[0], a[1], a[2]), get: |c| [c.x, c.y, c.luma],
    kinds: [Lin, Lin, Lin], dom: [U, U, U], exact: [true, true, true]);
color_case!(lab, "Lab", "cartesian", LabC, n: 3,
    mk: |a| LabC::<T>::new(a[0], a[1], a[2]), get: |c| [c.l, c.a, c.b],
    kinds: [Lin, Lin, Lin], dom: [(0.0, 100.0), (-128.0, 127.0), (-128.0, 127.0)], exact: [true, true, true]);
color_case!(luv, "Luv", "cartesian", LuvC, n: 3,
    mk: |a| LuvC::<T>::new(a[0], a[1], a[2]), get: |c| [c.l, c.u, c.v],
    kinds: [Lin, Lin, Lin], dom: [(0.0, 100.0), (-84.0, 176.0), (-135.0, 108.0)], exact: [true, true, true]);
color_case!(oklab, "Oklab", "cartesian", OklabC, n: 3,
    mk: |a| OklabC::<T>::new(a[0], a[1], a[2]), get: |c| [c.l, c.a, c.b],
    kinds: [Lin, Lin, Lin], dom: [U, (-1.0, 1.0), (-1.0, 1.0)], exact: [true, false, false]);
color_case!(lms, "Lms", "cartesian", LmsC, n: 3,
    mk: |a| LmsC::<T>::new(a[0], a[1], a[2]), get: |c| [c.long, c.medium, c.short],
    kinds: [Lin, Lin, Lin], dom: [U, U, U], exact: [false, false, false]);
color_case!(cam16ucsjab, "Cam16UcsJab", "cartesian", Cam16UcsJabC, n: 3,
    mk: |a| Cam16UcsJabC::<T>::new(a[0], a[1], a[2]), get: |c| [c.lightness, c.a, c.b],
    kinds: [Lin, Lin, Lin], dom: [(0.0, 100.0), (-50.0, 50.0), (-50.0, 50.0)], exact: [true, true, true]);

// ---- cylinder
color_case!(lch, "Lch", "cylinder", LchC, n: 3,
    mk: |a| LchC::<T>::new(a[0], a[1], a[2]), get: |c| [c.l, c.chroma, c.hue.into_raw_degrees()],
    kinds: [Lin, CylR, Hue], dom: [(0.0, 100.0), (0.0, 128.0), H], exact: [true, true, true]);
color_case!(lchuv, "Lchuv", "cylinder", LchuvC, n: 3,
    mk: |a| LchuvC::<T>::new(a[0], a[1], a[2]), get: |c| [c.l, c.chroma, c.hue.into_raw_degrees()],
    kinds: [Lin, CylR, Hue], dom: [(0.0, 100.0), (0.0, 180.0), H], exact: [true, true, true]);
color_case!(oklch, "Oklch", "cylinder", OklchC, n: 3,
    mk: |a| OklchC::<T>::new(a[0], a[1], a[2]), get: |c| [c.l, c.chroma, c.hue.into_raw_degrees()],
    kinds: [Lin, CylR, Hue], dom: [U, U, H], exact: [true, false, true]);
color_case!(cam16ucsjmh, "Cam16UcsJmh", "cylinder", Cam16UcsJmhC, n: 3,
    mk: |a| Cam16UcsJmhC::<T>::new(a[0], a[1], a[2]), get: |c| [c.lightness, c.colorfulness, c.hue.into_raw_degrees()],
    kinds: [Lin, CylR, Hue], dom: [(0.0, 100.0), (0.0, 50.0), H], exact: [true, true, true]);

// ---- cone
color_case!(hsv, "Hsv", "cone", HsvC, n: 3,
    mk: |a| HsvC::<T>::new(a[0], a[1], a[2]), get: |c| [c.hue.into_raw_degrees(), c.saturation, c.value],
    kinds: [Hue, ConeR(1.0), ConeH], dom: [H, U, U], exact: [true, true, true]);
color_case!(okhsv, "Okhsv", "cone", OkhsvC, n: 3,
    mk: |a| OkhsvC::<T>::new(a[0], a[1], a[2]), get: |c| [c.hue.into_raw_degrees(), c.saturation, c.value],
    kinds: [Hue, ConeR(1.0), ConeH], dom: [H, U, U], exact: [true, true, true]);

// ---- bicone
color_case!(hsl, "Hsl", "bicone", HslC, n: 3,
    mk: |a| HslC::<T>::new(a[0], a[1], a[2]), get: |c| [c.hue.into_raw_degrees(), c.saturation, c.lightness],
    kinds: [Hue, ConeR(1.0), BiH(1.0)], dom: [H, U, U], exact: [true, true, true]);
color_case!(okhsl, "Okhsl", "bicone", OkhslC, n: 3,
    mk: |a| OkhslC::<T>::new(a[0], a[1], a[2]), get: |c| [c.hue.into_raw_degrees(), c.saturation, c.lightness],
    kinds: [Hue, ConeR(1.0), BiH(1.0)], dom: [H, U, U], exact: [true, true, true]);
color_case!(hsluv, "Hsluv", "bicone", HsluvC, n: 3,
    mk: |a| HsluvC::<T>::new(a[0], a[1], a[2]), get: |c| [c.hue.into_raw_degrees(), c.saturation, c.l],
    kinds: [Hue, ConeR(100.0), BiH(100.0)], dom: [H, (0.0, 100.0), (0.0, 100.0)], exact: [true, true, true]);

// ---- hwb (through hsv)
color_case!(hwb, "Hwb", "hwb", HwbC, n: 3,
    mk: |a| HwbC::<T>::new(a[0], a[1], a[2]), get: |c| [c.hue.into_raw_degrees(), c.whiteness, c.blackness],
    kinds: [Hue, HwbW, HwbB], dom: [H, U, U], exact: [true, true, true]);
color_case!(okhwb, "Okhwb", "hwb", OkhwbC, n: 3,
    mk: |a| OkhwbC::<T>::new(a[0], a[1], a[2]), get: |c| [c.hue.into_raw_degrees(), c.whiteness, c.blackness],
    kinds: [Hue, HwbW, HwbB], dom: [H, U, U], exact: [true, true, true]);

hue_case!(rgbhue, "RgbHue", RgbHue);
hue_case!(labhue, "LabHue", LabHue);
hue_case!(luvhue, "LuvHue", LuvHue);
hue_case!(oklabhue, "OklabHue", OklabHue);
hue_case!(cam16hue, "Cam16Hue", Cam16Hue);

pub fn all_cases() -> Vec<&'static CaseDesc> {
    let mut v: Vec<&'static CaseDesc> = Vec::new();
    macro_rules! add {
        ($($m:ident),+) => {$(
            for d in $m::f32_::DESCS.iter() { v.push(d); }
            for d in $m::f64_::DESCS.iter() { v.push(d); }
        )+};
    }
    add!(
        rgb, luma, xyz, xyz_d50, yxy, lab, luv, oklab, lms, cam16ucsjab, lch, lchuv, oklch, cam16ucsjmh, hsv, okhsv, hsl,
        okhsl, hsluv, hwb, okhwb
    );
    for m in [&rgbhue::DESCS, &labhue::DESCS, &luvhue::DESCS, &oklabhue::DESCS, &cam16hue::DESCS] {
        for d in m.iter() {
            v.push(d);
        }
    }
    v
}
