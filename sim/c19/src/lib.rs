//! C19 — random color sampling respects the requested range and volume.
//!
//! System under test: palette's real `Standard: Distribution<C>`, `Uniform<C>`
//! (`new`, `new_inclusive`, `sample`, `sample_single`, `sample_single_inclusive`)
//! for every color type with sampling support, the hue types and `Alpha<_>`,
//! f32 and f64, on top of the real `rand 0.8` distributions.
//! Stub: the entropy source (`SimRng`) — fair, or faulty the way real entropy
//! sources are (stuck, periodic, low-entropy), or adversarially scripted so
//! that every component lands on an end of its range at the same time.

pub mod cases;
pub mod types;
pub mod simrng;

use simcore::core::{catch, Caught, Ctx, Tier, World, WorldInfo};
use simcore::ev;
use simcore::rng::Rng;
use cases::{all_cases, CaseDesc, DistKind, Ends, Kind, Request, Sample};
use serde::{Deserialize, Serialize};
use simrng::{Entropy, SimRng, Word};

#[derive(Clone, Debug, Serialize, Deserialize, Hash, PartialEq, Eq)]
pub enum Dist {
    Standard,
    Uniform { inclusive: bool },
    Single { inclusive: bool },
}

#[derive(Clone, Debug, Serialize, Deserialize, Hash, PartialEq, Eq)]
pub struct Plan {
    pub case: String,
    pub dist: Dist,
    /// end points as f64 bit patterns (exact), one per component
    pub lo: [u64; 4],
    pub hi: [u64; 4],
    /// the same end points, readable (informational only; `lo`/`hi` are authoritative)
    pub lo_text: String,
    pub hi_text: String,
    pub entropy: Entropy,
    pub samples: u32,
    /// run the volume-uniformity oracle (fair streams, wide ranges, many samples)
    pub uniformity: bool,
}

pub struct C19 {
    cases: Vec<&'static CaseDesc>,
}

impl C19 {
    pub fn new() -> Self {
        C19 { cases: all_cases() }
    }
    fn case(&self, name: &str) -> Option<&'static CaseDesc> {
        self.cases.iter().copied().find(|c| c.name == name)
    }
}

fn fbits(a: [f64; 4]) -> [u64; 4] {
    a.map(f64::to_bits)
}
fn ffrom(a: [u64; 4]) -> [f64; 4] {
    a.map(f64::from_bits)
}
fn ftext(a: &[f64; 4], n: usize) -> String {
    let v: Vec<String> = a[..n].iter().map(|x| format!("{x:?}")).collect();
    v.join(", ")
}

/// Round to the component type so that orderings decided in f64 survive narrowing.
fn rt(c: &CaseDesc, x: f64) -> f64 {
    if c.float == "f32" {
        x as f32 as f64
    } else {
        x
    }
}

fn next_up(c: &CaseDesc, x: f64, steps: u32) -> f64 {
    let mut v = x;
    for _ in 0..steps {
        v = if c.float == "f32" {
            let f = v as f32;
            let b = f.to_bits();
            let nb = if f == 0.0 {
                1
            } else if f > 0.0 {
                b + 1
            } else {
                b - 1
            };
            f32::from_bits(nb) as f64
        } else {
            let b = v.to_bits();
            let nb = if v == 0.0 {
                1
            } else if v > 0.0 {
                b + 1
            } else {
                b - 1
            };
            f64::from_bits(nb)
        };
    }
    v
}

/// Draw (lo, hi) for one linear-like component inside [dmin, dmax].
/// `min_rel`: minimum separation relative to the domain span (0 allows adjacent floats).
fn draw_pair(rng: &mut Rng, c: &CaseDesc, dmin: f64, dmax: f64, inclusive: bool, wide: bool, transform: bool) -> (f64, f64) {
    let span = dmax - dmin;
    let pick = |rng: &mut Rng| -> f64 {
        match rng.below(10) {
            0 => dmin,
            1 => dmax,
            2 => dmin + span * 0.5,
            3 => dmin + span * (rng.below(9) as f64) / 8.0,
            _ => dmin + span * rng.unit_f64(),
        }
    };
    if wide {
        // at least a tenth of the span (uniformity cases)
        let w = span * (0.1 + 0.9 * rng.unit_f64());
        let lo = match rng.below(8) {
            0 => dmin,             // touches the lower boundary
            1 => dmax - w,         // touches the upper boundary
            _ => dmin + (span - w) * rng.unit_f64(),
        };
        let (lo, hi) = (rt(c, lo), rt(c, lo + w));
        return (lo, hi.min(rt(c, dmax)).max(next_up(c, lo, 8)));
    }
    let mode = rng.below(20);
    let (mut lo, mut hi) = match mode {
        0 if inclusive => {
            let v = rt(c, pick(rng));
            (v, v)
        }
        1 | 2 if !transform => {
            // narrow: 2^-13 of the value (linear components only: a transform may merge
            // neighbours). Not narrower: rand 0.8's UniformFloat::new shrinks its scale
            // one float step at a time until `scale * max + low < high`, which takes
            // ~2^51 / (width in ulps) iterations for f64 -- it never returns for ranges a
            // few ulps wide. That is rand's behaviour, outside palette.
            let v = rt(c, pick(rng)).min(rt(c, dmax));
            let v = if v >= rt(c, dmax) { rt(c, dmin + span * 0.5) } else { v };
            let w = v.abs().max(span * 1e-3) * (1.0 / 8192.0) * (1 + rng.below(3)) as f64;
            (v, rt(c, v + w))
        }
        3 => (rt(c, dmin), rt(c, dmax)),
        _ => {
            let (a, b) = (rt(c, pick(rng)), rt(c, pick(rng)));
            if a <= b {
                (a, b)
            } else {
                (b, a)
            }
        }
    };
    // keep a decent separation for components that go through a transform, so
    // that the transformed ends stay ordered in the component type
    let min_sep = if transform { span * 1e-3 } else { lo.abs().max(hi.abs()).max(span * 1e-3) / 8192.0 };
    if (hi - lo < min_sep && !(inclusive && mode == 0 && lo == hi)) || (lo == hi && !(inclusive && mode == 0)) {
        if lo + min_sep.max(span * 1e-3) <= dmax {
            hi = rt(c, lo + min_sep.max(span * 1e-3));
        } else {
            lo = rt(c, hi - min_sep.max(span * 1e-3));
        }
    }
    if transform && lo > 0.0 && lo < span * 1e-3 {
        lo = 0.0; // no denormal-ish radii: their squares and cubes underflow
    }
    (lo, hi)
}

/// The arc "from the low hue to the high hue": hue ends are angles, so each is taken modulo a turn.
/// If the low hue's positive normal form L is below the high hue's H the arc is [L, H] whatever the raw
/// numbers are (low = 10, high = -10 is the arc from 10 up to 350). Otherwise the arc wraps through 0 and
/// has to be written with ascending raw angles (350..370, -10..10, 0..360: a full turn when L = H);
/// descending raw angles with L >= H are outside `rand`'s `low < high` contract and are never generated,
/// except equal ends of an inclusive range (a single point). Returns (L, span).
pub fn hue_arc(lo: f64, hi: f64) -> (f64, f64) {
    let (l, h) = (lo.rem_euclid(360.0), hi.rem_euclid(360.0));
    let span = if l < h {
        h - l
    } else if lo < hi {
        h + 360.0 - l
    } else {
        0.0
    };
    (l, span)
}

fn draw_hue_pair(rng: &mut Rng, c: &CaseDesc, inclusive: bool, wide: bool) -> (f64, f64) {
    let lo = match rng.below(12) {
        0 => 0.0,
        1 => 350.0,
        2 => -10.0,
        3 => 359.5,
        4 => -180.0,
        5 => 720.0 + rng.below(360) as f64,
        6 => -1000.0 - rng.below(360) as f64,
        _ => -400.0 + 800.0 * rng.unit_f64(),
    };
    let lo = rt(c, lo);
    if wide {
        let span = 36.0 + 324.0 * rng.unit_f64();
        return (lo, rt(c, lo + span).min(rt(c, lo + 360.0)));
    }
    let span = match rng.below(12) {
        0 if inclusive => 0.0,
        1 => 360.0,
        2 => 180.0,
        3 => 0.5,
        4 => 359.5,
        _ => (360.0 * rng.unit_f64()).max(0.25), // not a few ulps wide, see draw_pair
    };
    let mut hi = rt(c, lo + span);
    // the raw span must stay within one turn after rounding
    while hi - lo > 360.0 {
        hi = next_up(c, hi, 0).min(rt(c, lo + 359.999));
        if hi - lo > 360.0 {
            hi = rt(c, lo + 359.0);
        }
    }
    if hi <= lo && !(inclusive && span == 0.0) {
        hi = rt(c, lo + 1.0);
    }
    // Hue ends are angles: each may be written any number of turns away (10..-10 is the arc from 10 up
    // to 350; 10..380 is the arc from 10 to 20). Only for arcs comfortably away from 0 and 360 degrees
    // wide, so that rounding the shifted ends cannot change which way the arc is read.
    if hi - lo >= 0.25 && hi - lo <= 359.5 && lo.abs() < 1500.0 && rng.chance(1, 3) {
        let (k1, k2) = (rng.below(5) as f64 - 2.0, rng.below(5) as f64 - 2.0);
        let (l2, h2) = (rt(c, lo + 360.0 * k1), rt(c, hi + 360.0 * k2));
        let (nl, nh) = (l2.rem_euclid(360.0), h2.rem_euclid(360.0));
        // in contract: a non-wrapping normalised arc in any raw order, a wrapping one only with ascending raw ends
        let in_contract = if nl < nh { nh - nl >= 0.2 } else { l2 < h2 && nl - nh >= 0.2 };
        if in_contract {
            return (l2, h2);
        }
    }
    (lo, hi)
}

fn gen_entropy(rng: &mut Rng, fair_only: bool) -> Entropy {
    if fair_only {
        return Entropy::Fair { seed: rng.next_u64() };
    }
    let word = |rng: &mut Rng| -> Word {
        match rng.below(8) {
            0 => Word::Zero,
            1 => Word::Max,
            2 => Word::One,
            3 => Word::Msb,
            4 => Word::MaxMinus1,
            5 => Word::KeptOnes,
            _ => Word::Lit(rng.next_u64()),
        }
    };
    match rng.below(20) {
        0..=8 => Entropy::Fair { seed: rng.next_u64() },
        9 => Entropy::StuckLo,
        10 => Entropy::StuckHi,
        11 | 12 => Entropy::Alternating { period: 1 + rng.below(4) as u8, a: word(rng), b: word(rng) },
        13..=16 => {
            let n = 1 + rng.usize_below(9);
            Entropy::Scripted { words: (0..n).map(|_| word(rng)).collect() }
        }
        17 | 18 => Entropy::LowEntropy { bits: 1 + rng.below(8) as u8, seed: rng.next_u64() },
        _ => Entropy::Counter { start: rng.next_u64() >> rng.below(64), step: 1 + (rng.next_u64() >> rng.below(63)) },
    }
}

impl C19 {
    fn gen_ends(&self, rng: &mut Rng, c: &CaseDesc, inclusive: bool, wide: bool) -> ([f64; 4], [f64; 4]) {
        let mut lo = [0.0; 4];
        let mut hi = [0.0; 4];
        let mut hwb: Option<(usize, usize)> = None;
        for j in 0..c.n {
            let (dmin, dmax) = c.dom[j];
            match c.kinds[j] {
                Kind::Lin | Kind::Alpha => {
                    // a small share of linear ranges reaches outside the nominal bounds:
                    // the sampler contract is about the two ends, not about the space
                    let (a, b) = if !wide && rng.chance(1, 12) {
                        let s = dmax - dmin;
                        draw_pair(rng, c, dmin - s, dmax + s, inclusive, false, false)
                    } else {
                        draw_pair(rng, c, dmin, dmax, inclusive, wide, false)
                    };
                    lo[j] = a;
                    hi[j] = b;
                }
                Kind::Hue => {
                    let (a, b) = draw_hue_pair(rng, c, inclusive, wide);
                    lo[j] = a;
                    hi[j] = b;
                }
                Kind::CylR | Kind::ConeH | Kind::ConeR(_) => {
                    // cylinder radii (chroma, colorfulness) have no upper bound in palette: a share of the ranges
                    // lies partly or wholly beyond the nominal maximum (Lch chroma 150..170 is a legitimate request)
                    let top = if c.kinds[j] == Kind::CylR && !wide && rng.chance(1, 8) { 2.0 * dmax } else { dmax };
                    let (a, b) = draw_pair(rng, c, dmin, top, inclusive, wide, true);
                    lo[j] = a;
                    hi[j] = b;
                }
                Kind::BiH(scale) => {
                    // The bicone height is sampled through r1 in [0, 1]; the volume between
                    // the two ends must be resolvable there in the component type, otherwise
                    // the transformed ends coincide (rand rejects them) or are a few ulps
                    // apart (rand 0.8's UniformFloat::new then loops ~2^51/ulps times).
                    // Demand a mass of at least 2^-16 of the bicone between the ends.
                    // one range in ten reaches above the nominal maximum (lightness 1.2 .. 1.5 is a legitimate request for
                    // unclamped colors: the sampler's contract is about the two ends, not about the space)
                    let dmax = if !wide && rng.chance(1, 10) { dmax * 1.5 } else { dmax };
                    let mut pair = draw_pair(rng, c, dmin, dmax, inclusive, wide, true);
                    for _ in 0..8 {
                        let mass = bicone_cdf(pair.1 / scale) - bicone_cdf(pair.0 / scale);
                        if mass >= 1.0 / 65536.0 || (inclusive && pair.0 == pair.1) {
                            break;
                        }
                        pair = draw_pair(rng, c, dmin, dmax, inclusive, wide, true);
                    }
                    let mass = bicone_cdf(pair.1 / scale) - bicone_cdf(pair.0 / scale);
                    if mass < 1.0 / 65536.0 && !(inclusive && pair.0 == pair.1) {
                        pair = (rt(c, 0.25 * scale), rt(c, 0.75 * scale));
                    }
                    lo[j] = pair.0;
                    hi[j] = pair.1;
                }
                Kind::HwbW => hwb = Some((j, j + 1)),
                Kind::HwbB => {}
            }
        }
        if let Some((jw, jb)) = hwb {
            // draw the ends in HSV terms (s, v), with margins, then map to (w, b);
            // b <= 0.9 keeps the conditioning of the way back bounded.
            let (mut s0, mut s1) = draw_pair(rng, c, 0.0, 1.0, false, wide, true);
            let (v0, v1) = draw_pair(rng, c, 0.1, 1.0, false, wide, true);
            if s1 - s0 < 0.01 {
                if s0 + 0.01 <= 1.0 {
                    s1 = s0 + 0.01
                } else {
                    s0 = s1 - 0.01
                }
            }
            let (v0, v1) = if v1 - v0 < 0.01 { (v0.min(0.98), v0.min(0.98) + 0.01) } else { (v0, v1) };
            // the property is symmetric in the two ends: sometimes give the low end the larger saturation / value
            let (sa, sb) = if rng.chance(1, 3) { (s1, s0) } else { (s0, s1) };
            let (va, vb) = if rng.chance(1, 3) { (v1, v0) } else { (v0, v1) };
            lo[jw] = rt(c, (1.0 - sa) * va);
            lo[jb] = rt(c, 1.0 - va);
            hi[jw] = rt(c, (1.0 - sb) * vb);
            hi[jb] = rt(c, 1.0 - vb);
        }
        (lo, hi)
    }
}

const UNIFORMITY_ARMS: u64 = 9;

impl World for C19 {
    type Plan = Plan;

    fn id(&self) -> &'static str {
        "C19"
    }

    /// The front of the index space holds the volume-uniformity cases: every
    /// case x {Standard, Uniform, Uniform inclusive, ...} with drawn wide ranges.
    fn enumerated(&self, tier: Tier) -> u64 {
        // one uniformity case per (case, constructor) arm in the quick tier: Standard, new, new_inclusive,
        // sample_single, sample_single_inclusive, plus the nominal full range through new and new_inclusive
        // (two drawn ranges per arm in the quick tier, four in the thorough tier: a density that is only wrong for
        // some ranges — low end above zero, lightness range on one side of the bicone's middle — needs more than one)
        let per_case = match tier {
            Tier::Quick => UNIFORMITY_ARMS * 2,
            Tier::Thorough => UNIFORMITY_ARMS * 4,
        };
        self.cases.len() as u64 * per_case
    }

    fn random_runs(&self, tier: Tier) -> u64 {
        match tier {
            Tier::Quick => 4_000_000,
            Tier::Thorough => 100_000_000,
        }
    }

    fn plan(&self, index: u64, rng: &mut Rng, tier: Tier) -> Plan {
        let ncases = self.cases.len() as u64;
        let uniformity = index < self.enumerated(tier);
        let c = self.cases[(index % ncases) as usize];
        let arm = (index / ncases) % UNIFORMITY_ARMS;
        // arms 5 and 6: the exact nominal full range (hue 0..360), the usual call, where a fast path keyed on
        // lo == min / hi == max / span == 360 would live
        let full_range = uniformity && (arm == 5 || arm == 6);
        // arms 7 and 8: a slice of the shape — one component has equal ends (a disc of the cone at one value, a shell at
        // one saturation), the others a wide range: the remaining coordinates must still be volume-uniform
        let pinned_slice = uniformity && arm >= 7;
        let dist = if uniformity {
            match arm {
                0 => Dist::Standard,
                1 | 5 => Dist::Uniform { inclusive: false },
                2 | 6 | 7 => Dist::Uniform { inclusive: true },
                3 => Dist::Single { inclusive: false },
                _ => Dist::Single { inclusive: true },
            }
        } else {
            match rng.below(20) {
                0..=3 => Dist::Standard,
                4..=9 => Dist::Uniform { inclusive: false },
                10..=15 => Dist::Uniform { inclusive: true },
                16 | 17 => Dist::Single { inclusive: false },
                _ => Dist::Single { inclusive: true },
            }
        };
        let inclusive = matches!(dist, Dist::Uniform { inclusive: true } | Dist::Single { inclusive: true });
        // "between a color and itself" (and "all components but one equal"): too rare as a product of
        // per-component coincidences, so it gets a mode of its own
        let equal_mode = if inclusive && !uniformity && rng.chance(1, 25) { 1 + rng.below(2) as u8 } else { 0 };
        let (lo, hi) = if dist == Dist::Standard {
            ([0.0; 4], [0.0; 4])
        } else if full_range {
            let (mut lo, mut hi) = ([0.0; 4], [0.0; 4]);
            for j in 0..c.n {
                lo[j] = rt(c, c.dom[j].0);
                hi[j] = rt(c, c.dom[j].1);
            }
            (lo, hi)
        } else {
            let (lo, mut hi) = self.gen_ends(rng, c, inclusive, uniformity);
            let (mut lo, mut hi) = (lo, hi);
            let is_hwb = c.kinds[..c.n].iter().any(|k| matches!(k, Kind::HwbW | Kind::HwbB));
            if pinned_slice && c.n > 1 {
                // which component is pinned, and where, rotates with the plan index instead of being drawn: the few
                // slices a quick run can afford must not all land on the same component
                let round = index / (ncases * UNIFORMITY_ARMS);
                let turn = (round * 2 + (arm - 7) + index % ncases) as usize;
                // HWB: blackness can be pinned (v = 1 - b). The equivalent saturation can be pinned exactly only at its two
                // ends — the gray axis (w = 1 - b) and the surface of the cone (w = 0) —, with blackness on a dyadic grid
                // so that 1 - b is exact in f32; in between, rounding of (1 - s) v leaves the two ends a few ulps apart
                let pinnable: Vec<usize> = (0..c.n).collect();
                let j = pinnable[turn % pinnable.len()];
                if c.kinds[j] == Kind::HwbW {
                    let jb = j + 1;
                    let snap = |b: f64| ((b * 64.0).round() / 64.0).min(0.875);
                    lo[jb] = rt(c, snap(lo[jb]));
                    hi[jb] = rt(c, snap(hi[jb]));
                    if (turn / pinnable.len()) % 2 == 0 {
                        lo[j] = rt(c, 1.0 - lo[jb]);
                        hi[j] = rt(c, 1.0 - hi[jb]);
                    } else {
                        lo[j] = 0.0;
                        hi[j] = 0.0;
                    }
                } else
                if (turn / pinnable.len()) % 2 == 1 && !is_hwb {
                    // the usual request around a slice: everything else over its whole nominal range
                    for k in 0..c.n {
                        if k != j {
                            lo[k] = rt(c, c.dom[k].0);
                            hi[k] = rt(c, c.dom[k].1);
                        }
                    }
                }
                if c.kinds[j] == Kind::HwbW {
                    // done above
                } else if c.kinds[j] == Kind::HwbB {
                    // both ends get the low end's blackness; the high end keeps its saturation
                    let jw = j - 1;
                    let (s1, _) = hsv_of_hwb(hi[jw], hi[j]);
                    let v0 = 1.0 - lo[j];
                    hi[j] = lo[j];
                    hi[jw] = rt(c, ((1.0 - s1) * v0).max(0.0));
                } else {
                    // at the low end, at the high end, or at the top of the component's nominal range (value 1,
                    // lightness 1, saturation 1, alpha 1) — not at the bottom: at the apex the other coordinates mean nothing
                    let at = match (turn / 2) % 3 {
                        0 => lo[j],
                        1 => hi[j],
                        _ if is_hwb || c.kinds[j] == Kind::Hue => hi[j],
                        _ => rt(c, c.dom[j].1),
                    };
                    lo[j] = at;
                    hi[j] = at;
                }
            }
            let (lo, mut hi) = (lo, hi);
            if equal_mode == 1 && is_hwb {
                hi = lo;
            }
            if equal_mode > 0 && !is_hwb {
                let keep = if equal_mode == 2 { Some(rng.below(c.n as u64) as usize) } else { None };
                for j in 0..c.n {
                    if Some(j) != keep {
                        hi[j] = lo[j];
                    }
                }
            }
            (lo, hi)
        };
        let entropy = gen_entropy(rng, uniformity);
        let samples = if uniformity {
            match tier {
                Tier::Quick => 20_000,
                Tier::Thorough => 200_000,
            }
        } else {
            match rng.below(10) {
                0 => 1,
                1..=6 => 2 + rng.below(30) as u32,
                _ => 32 + rng.below(200) as u32,
            }
        };
        Plan {
            case: c.name.to_string(),
            dist,
            lo_text: ftext(&lo, c.n),
            hi_text: ftext(&hi, c.n),
            lo: fbits(lo),
            hi: fbits(hi),
            entropy,
            samples,
            uniformity,
        }
    }

    fn execute(&self, plan: &Plan, ctx: &mut Ctx<'_>) {
        let Some(c) = self.case(&plan.case) else {
            ctx.fail("harness", "unknown-case", format!("unknown case {}", plan.case));
            return;
        };
        execute(c, plan, ctx);
    }

    fn shrink(&self, plan: &Plan) -> Vec<Plan> {
        let mut out = Vec::new();
        if plan.uniformity {
            // a statistical verdict is a property of the whole sample and cannot be
            // shrunk; a containment failure found on the way can (the minimiser only
            // keeps candidates that fail with the same class)
            out.push(Plan { uniformity: false, samples: plan.samples.min(64), ..plan.clone() });
            return out;
        }
        let mut n = plan.samples;
        while n > 1 {
            n /= 2;
            out.push(Plan { samples: n, ..plan.clone() });
        }
        if plan.samples > 1 {
            out.push(Plan { samples: plan.samples - 1, ..plan.clone() });
        }
        // only strictly simpler entropy sources, so that minimisation cannot cycle
        let rank = |e: &Entropy| match e {
            Entropy::StuckLo => 0,
            Entropy::StuckHi => 1,
            Entropy::Fair { seed: 1 } => 2,
            _ => 3,
        };
        for e in [Entropy::StuckLo, Entropy::StuckHi, Entropy::Fair { seed: 1 }] {
            if rank(&e) < rank(&plan.entropy) {
                out.push(Plan { entropy: e, ..plan.clone() });
            }
        }
        if let Entropy::Scripted { words } = &plan.entropy {
            for w in simcore::core::shrink_list(words) {
                if !w.is_empty() {
                    out.push(Plan { entropy: Entropy::Scripted { words: w }, ..plan.clone() });
                }
            }
        }
        // simpler end points: snap each component's ends to the nominal domain
        if let Some(c) = self.case(&plan.case) {
            if plan.dist != Dist::Standard {
                let (lo, hi) = (ffrom(plan.lo), ffrom(plan.hi));
                for j in 0..c.n {
                    if matches!(c.kinds[j], Kind::HwbW | Kind::HwbB) {
                        continue;
                    }
                    let (dmin, dmax) = c.dom[j];
                    let (tl, th) = if c.kinds[j] == Kind::Hue { (0.0, 360.0) } else { (dmin, dmax) };
                    if lo[j] != tl || hi[j] != th {
                        let (mut l2, mut h2) = (lo, hi);
                        l2[j] = tl;
                        h2[j] = th;
                        out.push(Plan { lo: fbits(l2), hi: fbits(h2), lo_text: ftext(&l2, c.n), hi_text: ftext(&h2, c.n), ..plan.clone() });
                    }
                    // round the ends to whole numbers where that keeps them ordered
                    let (rl, rh) = (lo[j].round(), hi[j].round());
                    if (rl != lo[j] || rh != hi[j]) && rl < rh && (c.kinds[j] == Kind::Hue || (rl >= dmin && rh <= dmax)) {
                        let (mut l2, mut h2) = (lo, hi);
                        l2[j] = rl;
                        h2[j] = rh;
                        out.push(Plan { lo: fbits(l2), hi: fbits(h2), lo_text: ftext(&l2, c.n), hi_text: ftext(&h2, c.n), ..plan.clone() });
                    }
                }
            }
        }
        out
    }

    fn info(&self) -> WorldInfo {
        WorldInfo {
            rule: "plan = (case = color type x f32|f64 x plain|alpha, or a hue type; distribution in {Standard, Uniform::new, \
                   Uniform::new_inclusive, sample_single, sample_single_inclusive}; two end points drawn inside rand's own contract; \
                   entropy mode in {fair, stuck-lo, stuck-hi, alternating, scripted-extremes, low-entropy, counter}; sample count); \
                   the first plans of the index space are the volume-uniformity cases (every case x distribution, wide ranges, fair \
                   stream, 2e4/2e5 samples, chi-square on the analytic volume CDF); distinct = distinct plan hash; non-trivial = at \
                   least one sample drawn and judged",
            state_measure: "states = distinct (case, distribution, entropy mode, outcome class); transitions = distinct consecutive pairs within a worker (informational only)",
            assumptions: vec![
                "rand 0.8's Uniform<f32|f64>, Standard and Rng are trusted",
                "end points satisfy rand's own contract: every component low < high (<= for inclusive), raw hue low < high with span <= 360 degrees, HWB ends inside the cone with blackness <= 0.9; components that go through sqrt/cbrt keep >= 1e-3 of their span between the ends",
                "containment is exact for components that pass straight through rand's Uniform; components that go through an invertible transform get a tolerance that follows the conditioning of that transform in the component type (DESIGN §4.3)",
                "the volume-uniformity oracle is statistical: chi-square, 16 bins per coordinate and 4x4 per coordinate pair, threshold p < 1e-9, fair streams only; it cannot be a seed-independent statement",
                "on a slice of the shape (one component with equal ends: zero volume) 'uniform with respect to volume' is read as the thin-slab limit, i.e. the other coordinates keep the distribution they have in the solid — what any sampler that is continuous in its end points gives",
            ],
            real: vec![
                "palette macros/random.rs (cartesian, cylinder, cone, bicone, hwb samplers)",
                "palette random_sampling/cone.rs",
                "palette hues.rs Standard + Uniform hue samplers",
                "palette alpha/alpha.rs UniformAlpha",
                "rand 0.8 Uniform/Standard/Rng",
            ],
            stub: vec!["the entropy source behind RngCore (SimRng)"],
            expected_probes: vec![
                "sample-equals-low-end",
                "sample-equals-high-end-inclusive",
                "hue-arc-wraps-through-0",
                "hue-span-360",
                "hue-ends-raw-descending",
                "hue-raw-ends-more-than-a-turn-apart",
                "hue-negative-raw",
                "equal-ends-inclusive",
                "hwb-ends-swapped",
                "range-outside-nominal-bounds",
                "uniformity-case",
                "uniformity-on-a-slice-of-the-shape",
                "alpha-of-the-other-float-width",
            ],
            expected_faults: vec!["stuck-lo", "stuck-hi", "alternating", "scripted-extremes", "low-entropy", "counter"],
            time_note: "palette has no clock; simulated time is reported as steps_executed (= samples drawn)",
        }
    }
}

// ------------------------------------------------------------------ execution

fn ulp_at(c: &CaseDesc, x: f64) -> f64 {
    c.eps * x.abs().max(f64::MIN_POSITIVE)
}

fn hsv_of_hwb(w: f64, b: f64) -> (f64, f64) {
    let v = 1.0 - b;
    let s = if v != 0.0 { 1.0 - w / v } else { 0.0 };
    (s, v)
}

fn bicone_cdf(l: f64) -> f64 {
    if l <= 0.5 {
        4.0 * l * l * l
    } else {
        1.0 - 4.0 * (1.0 - l).powi(3)
    }
}

struct Judge<'d> {
    c: &'d CaseDesc,
    standard: bool,
    inclusive: bool,
    lo: [f64; 4],
    hi: [f64; 4],
    hwb: Option<(usize, usize)>,
    hit_lo: bool,
    hit_hi: bool,
    /// largest observed excursion outside the ends, in ulps of the end (sqrt/cbrt components)
    max_excess_ulps: f64,
    /// the same for the bicone height, in units of its resolution and in ulps
    max_excess_bicone: f64,
    max_excess_bicone_ulps: f64,
    /// Standard samples outside the case table's literal domain (informational, see `contain`)
    outside_table_domain: u64,
}

impl<'d> Judge<'d> {
    /// Containment of one sample. `Err((oracle, component, message))`.
    fn contain(&mut self, s: &Sample) -> Result<(), (&'static str, usize, String)> {
        let c = self.c;
        if self.standard {
            if s.within == Some(false) {
                return Err(("standard-within-bounds", 0, format!("is_within_bounds() is false for {:?}", &s.comps[..c.n])));
            }
            for j in 0..c.n {
                let x = s.comps[j];
                if !x.is_finite() {
                    return Err(("standard-finite", j, format!("component {j} = {x:?}")));
                }
                // "Within the bounds of its space" is palette's own `is_within_bounds()` (judged above). The
                // literal domains of the case table are NOT demanded: a hue is an angle (any representative),
                // Lch chroma and CAM16 colorfulness have no upper bound in palette, the CAM16-UCS a/b and
                // Oklab ranges are documented as estimates. A component outside the table's domain is only
                // counted.
                if c.kinds[j] == Kind::Alpha && !(0.0..=1.0).contains(&x) {
                    // alpha has no `is_within_bounds()` of its own; its space is [0, max_intensity]
                    return Err(("standard-range", j, format!("alpha = {x:?} outside [0, 1]")));
                }
                if c.exact[j] && c.kinds[j] != Kind::Hue {
                    let (a, b) = (rt(c, c.dom[j].0), rt(c, c.dom[j].1));
                    if x < a || x > b {
                        self.outside_table_domain += 1;
                    }
                }
            }
            return Ok(());
        }
        for j in 0..c.n {
            let (x, lo, hi) = (s.comps[j], self.lo[j], self.hi[j]);
            if !x.is_finite() {
                return Err(("uniform-finite", j, format!("component {j} = {x:?}")));
            }
            match c.kinds[j] {
                Kind::Lin | Kind::Alpha => {
                    if x < lo || x > hi {
                        return Err(("uniform-range", j, format!("component {j} = {x:?} outside [{lo:?}, {hi:?}]")));
                    }
                    self.hit_lo |= x == lo;
                    self.hit_hi |= x == hi;
                }
                Kind::Hue => {
                    let (l, span) = hue_arc(lo, hi);
                    let tol = 8.0 * c.eps * lo.abs().max(hi.abs()).max(720.0);
                    let d = (x - l).rem_euclid(360.0);
                    // raw ends more than a turn apart (10..380): "the arc from the low hue to the high hue" can be
                    // read modulo a turn ([10, 20], what palette does) or as more than a full turn (every hue):
                    // either reading is accepted, so nothing is demanded of the hue then
                    let either_reading = (hi - lo).abs() > 360.0;
                    let on_arc = either_reading || span >= 360.0 || d <= span + tol || d >= 360.0 - tol;
                    if !on_arc {
                        return Err((
                            "uniform-hue-arc",
                            j,
                            format!("hue {x:?} is {d:.6} degrees past the low hue {lo:?}; the arc to {hi:?} spans {span:?}"),
                        ));
                    }
                }
                Kind::CylR | Kind::ConeH | Kind::ConeR(_) => {
                    let t_lo = 4.0 * ulp_at(c, lo);
                    let t_hi = 4.0 * ulp_at(c, hi);
                    let ex = if x < lo { (lo - x) / ulp_at(c, lo) } else if x > hi { (x - hi) / ulp_at(c, hi) } else { 0.0 };
                    self.max_excess_ulps = self.max_excess_ulps.max(ex);
                    if x < lo - t_lo || x > hi + t_hi {
                        return Err(("uniform-range", j, format!("component {j} = {x:?} outside [{lo:?}, {hi:?}] by more than 4 ulp")));
                    }
                    self.hit_lo |= x == lo;
                    self.hit_hi |= x == hi;
                }
                Kind::BiH(scale) => {
                    // The bicone height is drawn through r1 in [0, 1] (one ulp of r1 is
                    // eps); its inverse CDF has slope 1/(12 (1-h)^2) in the upper half,
                    // so that is the resolution the height can have there.
                    let slope = |h: f64| -> f64 {
                        // (not clamped at the top: a requested range may lie above the nominal maximum, and the map from
                        // r1 to the height has the same conditioning on both sides of the apex)
                        let hn = (h / scale).max(0.0);
                        if hn > 0.5 {
                            (1.0 / (12.0 * (1.0 - hn).powi(2))).clamp(1.0, 1e12)
                        } else {
                            1.0
                        }
                    };
                    let t_lo = 4.0 * c.eps * scale * slope(lo);
                    let t_hi = 4.0 * c.eps * scale * slope(hi);
                    let ex = if x < lo { (lo - x) / (t_lo / 4.0) } else if x > hi { (x - hi) / (t_hi / 4.0) } else { 0.0 };
                    self.max_excess_bicone = self.max_excess_bicone.max(ex);
                    let exu = if x < lo { (lo - x) / ulp_at(c, lo) } else if x > hi { (x - hi) / ulp_at(c, hi) } else { 0.0 };
                    self.max_excess_bicone_ulps = self.max_excess_bicone_ulps.max(exu);
                    if x < lo - t_lo || x > hi + t_hi {
                        return Err((
                            "uniform-range",
                            j,
                            format!("component {j} = {x:?} outside [{lo:?}, {hi:?}] (tolerance {t_lo:e} / {t_hi:e})"),
                        ));
                    }
                }
                Kind::HwbW | Kind::HwbB => {}
            }
        }
        if let Some((jw, jb)) = self.hwb {
            let (s0, v0) = hsv_of_hwb(self.lo[jw], self.lo[jb]);
            let (s1, v1) = hsv_of_hwb(self.hi[jw], self.hi[jb]);
            let (smin, smax) = (s0.min(s1), s0.max(s1));
            let (vmin, vmax) = (v0.min(v1), v0.max(v1));
            let (sx, vx) = hsv_of_hwb(s.comps[jw], s.comps[jb]);
            let tv = 8.0 * c.eps;
            let ts = 8.0 * c.eps / vmin.max(0.05);
            if vx < vmin - tv || vx > vmax + tv {
                return Err(("uniform-hwb-value", jb, format!("equivalent HSV value {vx:?} outside [{vmin:?}, {vmax:?}]")));
            }
            if sx < smin - ts || sx > smax + ts {
                return Err(("uniform-hwb-saturation", jw, format!("equivalent HSV saturation {sx:?} outside [{smin:?}, {smax:?}]")));
            }
        }
        Ok(())
    }

    /// Map a sample through the analytic CDF of the volume-uniform distribution
    /// on the shape restricted to the requested range: the images are i.i.d. U(0,1).
    fn to_unit(&self, s: &Sample) -> [f64; 4] {
        let c = self.c;
        let mut u = [0.5; 4];
        let lin = |x: f64, a: f64, b: f64| if b > a { (x - a) / (b - a) } else { 0.5 };
        for j in 0..c.n {
            let (x, lo, hi) = (s.comps[j], self.lo[j], self.hi[j]);
            u[j] = match c.kinds[j] {
                Kind::Lin | Kind::Alpha => lin(x, lo, hi),
                Kind::Hue => {
                    let (l, span) = hue_arc(lo, hi);
                    if span > 0.0 && (hi - lo).abs() <= 360.0 {
                        ((x - l).rem_euclid(360.0)) / span.min(360.0)
                    } else {
                        0.5
                    }
                }
                Kind::CylR => lin(x * x, lo * lo, hi * hi),
                Kind::ConeR(_) => lin(x * x, lo * lo, hi * hi),
                Kind::ConeH => lin(x * x * x, lo * lo * lo, hi * hi * hi),
                Kind::BiH(scale) => lin(bicone_cdf(x / scale), bicone_cdf(lo / scale), bicone_cdf(hi / scale)),
                Kind::HwbW | Kind::HwbB => 0.5,
            };
        }
        if let Some((jw, jb)) = self.hwb {
            let (s0, v0) = hsv_of_hwb(self.lo[jw], self.lo[jb]);
            let (s1, v1) = hsv_of_hwb(self.hi[jw], self.hi[jb]);
            let (smin, smax) = (s0.min(s1), s0.max(s1));
            let (vmin, vmax) = (v0.min(v1), v0.max(v1));
            let (sx, vx) = hsv_of_hwb(s.comps[jw], s.comps[jb]);
            u[jw] = lin(sx * sx, smin * smin, smax * smax);
            u[jb] = lin(vx * vx * vx, vmin * vmin * vmin, vmax * vmax * vmax);
        }
        u
    }
}

fn execute(c: &'static CaseDesc, plan: &Plan, ctx: &mut Ctx<'_>) {
    let dist = match plan.dist {
        Dist::Standard => DistKind::Standard,
        Dist::Uniform { inclusive } => DistKind::Uniform { inclusive },
        Dist::Single { inclusive } => DistKind::Single { inclusive },
    };
    let standard = dist == DistKind::Standard;
    let inclusive = matches!(dist, DistKind::Uniform { inclusive: true } | DistKind::Single { inclusive: true });
    let (plo, phi) = (ffrom(plan.lo), ffrom(plan.hi));
    let dist_name = match plan.dist {
        Dist::Standard => "Standard",
        Dist::Uniform { inclusive: false } => "Uniform::new",
        Dist::Uniform { inclusive: true } => "Uniform::new_inclusive",
        Dist::Single { inclusive: false } => "sample_single",
        Dist::Single { inclusive: true } => "sample_single_inclusive",
    };
    let ekind = plan.entropy.kind();
    ev!(ctx, "case={} dist={dist_name} entropy={ekind} n={} lo=[{}] hi=[{}]", c.name, plan.samples, ftext(&plo, c.n), ftext(&phi, c.n));
    ctx.cell(c.name, dist_name);
    ctx.cell(c.shape, ekind);
    if !plan.entropy.is_fair() {
        ctx.fired(ekind);
    }
    // probes on the plan
    let hwb = c.kinds.iter().position(|k| *k == Kind::HwbW).map(|j| (j, j + 1));
    if !standard {
        for j in 0..c.n {
            match c.kinds[j] {
                Kind::Hue => {
                    let (l, h) = (rt(c, plo[j]), rt(c, phi[j]));
                    if l.rem_euclid(360.0) >= h.rem_euclid(360.0) && l < h {
                        ctx.probe("hue-arc-wraps-through-0");
                    }
                    if l > h {
                        ctx.probe("hue-ends-raw-descending");
                    }
                    if h - l > 360.0 {
                        ctx.probe("hue-raw-ends-more-than-a-turn-apart");
                    }
                    if h - l == 360.0 {
                        ctx.probe("hue-span-360");
                    }
                    if l < 0.0 {
                        ctx.probe("hue-negative-raw");
                    }
                    if l == h {
                        ctx.probe("equal-ends-inclusive");
                    }
                }
                Kind::Lin | Kind::Alpha => {
                    if plo[j] == phi[j] {
                        ctx.probe("equal-ends-inclusive");
                    }
                    if c.kinds[j] == Kind::Lin && (plo[j] < c.dom[j].0 || phi[j] > c.dom[j].1) {
                        ctx.probe("range-outside-nominal-bounds");
                    }
                }
                _ => {}
            }
        }
        if let Some((jw, jb)) = hwb {
            let (s0, v0) = hsv_of_hwb(plo[jw], plo[jb]);
            let (s1, v1) = hsv_of_hwb(phi[jw], phi[jb]);
            if s0 > s1 || v0 > v1 {
                ctx.probe("hwb-ends-swapped");
            }
        }
    }
    if plan.uniformity {
        ctx.probe("uniformity-case");
    }
    if c.name.contains("other float") {
        ctx.probe("alpha-of-the-other-float-width");
    }

    let req = Request { dist, lo: plo, hi: phi, n: plan.samples as usize };
    let mut rng = SimRng::new(&plan.entropy);
    let mut judge = Judge { c, standard, inclusive, lo: plo, hi: phi, hwb, hit_lo: false, hit_hi: false, max_excess_ulps: 0.0, max_excess_bicone: 0.0, max_excess_bicone_ulps: 0.0, outside_table_domain: 0 };
    if standard {
        for j in 0..c.n {
            judge.lo[j] = if c.kinds[j] == Kind::Alpha { 0.0 } else { c.dom[j].0 };
            judge.hi[j] = if c.kinds[j] == Kind::Alpha { 1.0 } else { c.dom[j].1 };
        }
    }
    // bins for the uniformity oracle
    const B1: usize = 16;
    const B2: usize = 4;
    let mut bins1 = [[0u32; B1]; 4];
    let mut bins2 = [[0u32; B2 * B2]; 6];
    let pairs: [(usize, usize); 6] = [(0, 1), (0, 2), (0, 3), (1, 2), (1, 3), (2, 3)];

    let mut first_bad: Option<(usize, &'static str, usize, String, [f64; 4])> = None;
    let mut drawn = 0usize;
    let mut hasher = simcore::rng::Fnv::default();
    let mut pending: Vec<Sample> = Vec::with_capacity(plan.samples as usize);
    // The sampler runs to completion under catch_unwind; samples are judged afterwards,
    // in order, against the end points it really received.
    cases::FROM_CLONE.with(|n| n.set(0));
    let r = catch(|| {
        (c.run)(&req, &mut rng, &mut |s: Sample| {
            pending.push(s);
        })
    });
    let from_clone = cases::FROM_CLONE.with(|n| n.get());
    if from_clone > 0 {
        // only on a palette whose samplers are `Clone` (they are not on the current tree)
        ctx.probe("sampled-from-a-cloned-sampler");
        ctx.extra("samples-drawn-from-a-cloned-sampler", from_clone);
    }
    let ends: Ends = match r {
        Caught::Ok(e) => e,
        Caught::Injected(_) => {
            ctx.fail("harness", "unexpected-injected", "injected panic in a world that injects none".into());
            return;
        }
        Caught::Foreign(msg) if msg.contains(simrng::NO_PROGRESS_MARKER) => {
            // liveness after the fault has stopped: a faulty stream is healed after HEAL_AFTER_WORDS words of
            // one call, so whatever is still looping LIVENESS_BOUND_WORDS words later loops on a fair stream
            ctx.checked();
            ctx.fail(
                &format!("no-progress:{dist_name}"),
                &format!("no-progress:{}:{dist_name}", c.name),
                format!(
                    "one sampling call drew more than {} entropy words without returning (entropy: {}; a faulty stream is replaced by a fair one after {} words) for end points lo=[{}] hi=[{}]",
                    simrng::LIVENESS_BOUND_WORDS,
                    plan.entropy.kind(),
                    simrng::HEAL_AFTER_WORDS,
                    ftext(&plo, c.n),
                    ftext(&phi, c.n)
                ),
            );
            return;
        }
        Caught::Foreign(msg) if !standard && (0..c.n).any(|j| c.kinds[j] == Kind::Hue && rt(c, plo[j]) > rt(c, phi[j])) => {
            // Raw-descending hue ends (10..-10): palette reads them modulo a turn (the arc from 10 up to 350)
            // and samples; a sampler that instead refuses them the way `rand` refuses `low >= high` draws no
            // color at all, which the property does not forbid. Only a sample off the arc is a violation.
            ctx.checked();
            ctx.probe("raw-descending-hue-ends-refused");
            ev!(ctx, "constructor refused raw-descending hue ends: {msg}");
            return;
        }
        Caught::Foreign(msg) => {
            ctx.checked();
            ctx.fail(
                &format!("panic:{dist_name}"),
                &format!("panic:{}:{dist_name}", c.name),
                format!("sampling panicked for in-contract end points lo=[{}] hi=[{}]: {msg}", ftext(&plo, c.n), ftext(&phi, c.n)),
            );
            return;
        }
    };
    if !standard {
        judge.lo = ends.lo;
        judge.hi = ends.hi;
    }
    for (i, s) in pending.iter().enumerate() {
        drawn += 1;
        ctx.step();
        for j in 0..c.n {
            hasher.u64(s.comps[j].to_bits());
        }
        ctx.checked();
        if let Err((oracle, j, msg)) = judge.contain(s) {
            if first_bad.is_none() {
                first_bad = Some((i, oracle, j, msg, s.comps));
            }
            break;
        }
        if plan.uniformity {
            let u = judge.to_unit(s);
            for j in 0..c.n {
                let b = ((u[j] * B1 as f64) as isize).clamp(0, B1 as isize - 1) as usize;
                bins1[j][b] += 1;
            }
            for (p, (a, b)) in pairs.iter().enumerate() {
                if *a < c.n && *b < c.n {
                    let ba = ((u[*a] * B2 as f64) as isize).clamp(0, B2 as isize - 1) as usize;
                    let bb = ((u[*b] * B2 as f64) as isize).clamp(0, B2 as isize - 1) as usize;
                    bins2[p][ba * B2 + bb] += 1;
                }
            }
        }
    }
    if drawn > 0 {
        ctx.changed();
    }
    ev!(ctx, "drew {drawn} samples, {} entropy words, digest {:016x}", rng.words_drawn, hasher.finish());
    if rng.healed_calls > 0 {
        // a sampler that uses rejection kept asking a stuck source: the fault was stopped so that it could finish
        ctx.probe("faulty-entropy-healed-so-that-a-rejection-loop-could-finish");
        ctx.extra("sampling-calls-healed", rng.healed_calls);
    }
    if judge.hit_lo {
        ctx.probe("sample-equals-low-end");
    }
    if judge.hit_hi && inclusive {
        ctx.probe("sample-equals-high-end-inclusive");
    }
    if judge.max_excess_ulps > 0.0 {
        ctx.extra("sqrt-cbrt-component-outside-ends-by-(0,1]-ulp", (judge.max_excess_ulps <= 1.0) as u64);
        ctx.extra("sqrt-cbrt-component-outside-ends-by-(1,4]-ulp", (judge.max_excess_ulps > 1.0) as u64);
    }
    if judge.max_excess_bicone > 0.0 {
        ctx.extra("bicone-height-outside-ends-within-1-resolution-unit", (judge.max_excess_bicone <= 1.0) as u64);
        ctx.extra("bicone-height-outside-ends-by-(1,4]-resolution-units", (judge.max_excess_bicone > 1.0) as u64);
        ctx.extra("bicone-height-outside-ends-by->4-ulp", (judge.max_excess_bicone_ulps > 4.0) as u64);
        ctx.extra("bicone-height-outside-ends-by->64-ulp", (judge.max_excess_bicone_ulps > 64.0) as u64);
    }
    let outcome = if first_bad.is_some() { "out-of-range" } else { "ok" };
    ctx.state(&(c.name, dist_name, ekind, outcome));
    if let Some((i, oracle, _j, msg, comps)) = first_bad {
        ctx.fail(
            &format!("{oracle}:{dist_name}"),
            &format!("{oracle}:{}:{dist_name}", c.name),
            format!("sample #{i} = {:?}: {msg} (ends lo=[{}] hi=[{}])", &comps[..c.n], ftext(&judge.lo, c.n), ftext(&judge.hi, c.n)),
        );
        return;
    }
    if judge.outside_table_domain > 0 {
        ctx.extra("standard-samples-outside-the-case-table-domain", judge.outside_table_domain);
    }
    // The property promises volume-uniformity for the cone and bicone shaped spaces (HSV, HSL, HWB, their Ok
    // counterparts, and HSLuv, which palette samples as a bicone). For the other shapes (cartesian boxes,
    // cylinders, bare hues) the same statistic is computed and logged, but a deviation is NOT a violation: a
    // cylinder sampled uniformly in chroma instead of chroma^2 still does everything the property states.
    let fatal_shape = matches!(c.shape, "cone" | "bicone" | "hwb");
    if plan.uniformity && plan.entropy.is_fair() && drawn >= 1000 {
        // equal ends carry no distribution
        let mut degenerate: Vec<bool> = (0..c.n).map(|j| !standard && judge.lo[j] == judge.hi[j] && !matches!(c.kinds[j], Kind::HwbW | Kind::HwbB)).collect();
        if let (Some((jw, jb)), false) = (hwb, standard) {
            // HWB: the coordinates of the shape are the equivalent saturation and value
            let (s0, v0) = hsv_of_hwb(judge.lo[jw], judge.lo[jb]);
            let (s1, v1) = hsv_of_hwb(judge.hi[jw], judge.hi[jb]);
            degenerate[jw] = s0 == s1;
            degenerate[jb] = v0 == v1;
        }
        if degenerate.iter().any(|d| *d) {
            ctx.probe("uniformity-on-a-slice-of-the-shape");
        }
        for j in 0..c.n {
            if degenerate[j] {
                continue;
            }
            ctx.checked();
            let (chi, p) = chi_square_uniform(&bins1[j]);
            ev!(ctx, "uniformity comp {j}: chi2={chi:.2} p={p:.3e}");
            ctx.extra("uniformity-tests", 1);
            if p < 1e-9 && !fatal_shape {
                ctx.extra("non-uniform-but-not-promised-uniform", 1);
                ev!(ctx, "  (informational: {} is not a cone or bicone shaped space)", c.shape);
            }
            if p < 1e-9 && fatal_shape {
                ctx.fail(
                    &format!("volume-uniformity:{dist_name}"),
                    &format!("volume-uniformity:{}:{dist_name}", c.name),
                    format!(
                        "component {j} ({:?}) is not uniform with respect to volume: chi2={chi:.1} over {B1} bins, p={p:.3e}, bins={:?}",
                        c.kinds[j], bins1[j]
                    ),
                );
                return;
            }
        }
        for (p_i, (a, b)) in pairs.iter().enumerate() {
            if *a < c.n && *b < c.n && !degenerate[*a] && !degenerate[*b] {
                ctx.checked();
                let (chi, p) = chi_square_uniform(&bins2[p_i]);
                ev!(ctx, "uniformity pair ({a},{b}): chi2={chi:.2} p={p:.3e}");
                ctx.extra("uniformity-tests", 1);
                if p < 1e-9 && !fatal_shape {
                    ctx.extra("non-uniform-but-not-promised-uniform", 1);
                }
                if p < 1e-9 && fatal_shape {
                    ctx.fail(
                        &format!("volume-uniformity:{dist_name}"),
                        &format!("volume-uniformity:{}:{dist_name}", c.name),
                        format!("components ({a},{b}) are not jointly uniform: chi2={chi:.1} over {} cells, p={p:.3e}, cells={:?}", B2 * B2, bins2[p_i]),
                    );
                    return;
                }
            }
        }
    }
}

// ------------------------------------------------------------------ statistics

/// Pearson chi-square against equal expected counts; returns (statistic, p-value).
pub fn chi_square_uniform(bins: &[u32]) -> (f64, f64) {
    let n: f64 = bins.iter().map(|b| *b as f64).sum();
    if n == 0.0 {
        return (0.0, 1.0);
    }
    let e = n / bins.len() as f64;
    let chi: f64 = bins.iter().map(|b| (*b as f64 - e).powi(2) / e).sum();
    let dof = (bins.len() - 1) as f64;
    (chi, gamma_q(dof / 2.0, chi / 2.0))
}

fn ln_gamma(x: f64) -> f64 {
    // Lanczos approximation (g = 7, n = 9)
    const G: f64 = 7.0;
    const C: [f64; 9] = [
        0.999_999_999_999_809_93,
        676.520_368_121_885_1,
        -1_259.139_216_722_402_8,
        771.323_428_777_653_13,
        -176.615_029_162_140_59,
        12.507_343_278_686_905,
        -0.138_571_095_265_720_12,
        9.984_369_578_019_571_6e-6,
        1.505_632_735_149_311_6e-7,
    ];
    if x < 0.5 {
        return (std::f64::consts::PI / (std::f64::consts::PI * x).sin()).ln() - ln_gamma(1.0 - x);
    }
    let x = x - 1.0;
    let mut a = C[0];
    let t = x + G + 0.5;
    for (i, c) in C.iter().enumerate().skip(1) {
        a += c / (x + i as f64);
    }
    0.5 * (2.0 * std::f64::consts::PI).ln() + (x + 0.5) * t.ln() - t + a.ln()
}

/// Regularised upper incomplete gamma function Q(a, x).
pub fn gamma_q(a: f64, x: f64) -> f64 {
    if x <= 0.0 {
        return 1.0;
    }
    if x < a + 1.0 {
        // series for P, Q = 1 - P
        let mut ap = a;
        let mut sum = 1.0 / a;
        let mut del = sum;
        for _ in 0..500 {
            ap += 1.0;
            del *= x / ap;
            sum += del;
            if del.abs() < sum.abs() * 1e-16 {
                break;
            }
        }
        let p = sum * (-x + a * x.ln() - ln_gamma(a)).exp();
        (1.0 - p).max(0.0)
    } else {
        // continued fraction for Q (modified Lentz)
        let tiny = 1e-300;
        let mut b = x + 1.0 - a;
        let mut c = 1.0 / tiny;
        let mut d = 1.0 / b;
        let mut h = d;
        for i in 1..500 {
            let an = -(i as f64) * (i as f64 - a);
            b += 2.0;
            d = an * d + b;
            if d.abs() < tiny {
                d = tiny;
            }
            c = b + an / c;
            if c.abs() < tiny {
                c = tiny;
            }
            d = 1.0 / d;
            let del = d * c;
            h *= del;
            if (del - 1.0).abs() < 1e-16 {
                break;
            }
        }
        (h * (-x + a * x.ln() - ln_gamma(a)).exp()).clamp(0.0, 1.0)
    }
}
