//! The entropy seam. palette takes its randomness through `R: Rng + ?Sized`;
//! the simulator owns that seam with `SimRng`, which can be a fair stream or a
//! faulty one (stuck, periodic, low-entropy, adversarially scripted).

use simcore::rng::Rng as Prng;
use rand::RngCore;
use serde::{Deserialize, Serialize};

#[derive(Clone, Debug, Serialize, Deserialize, Hash, PartialEq, Eq)]
pub enum Word {
    Zero,
    Max,
    One,
    Msb,
    MaxMinus1,
    /// all mantissa bits that rand keeps are ones, the discarded ones zero
    KeptOnes,
    Lit(u64),
}

impl Word {
    fn value(&self) -> u64 {
        match self {
            Word::Zero => 0,
            Word::Max => u64::MAX,
            Word::One => 1 | (1 << 32),
            Word::Msb => (1 << 63) | (1 << 31),
            Word::MaxMinus1 => u64::MAX - 1 - (1 << 32),
            Word::KeptOnes => !((1u64 << 12) - 1) & !(((1u64 << 9) - 1) << 32),
            Word::Lit(v) => *v,
        }
    }
}

#[derive(Clone, Debug, Serialize, Deserialize, Hash, PartialEq, Eq)]
pub enum Entropy {
    Fair { seed: u64 },
    StuckLo,
    StuckHi,
    Alternating { period: u8, a: Word, b: Word },
    /// adversarial: each call returns the next word of the script (cyclic)
    Scripted { words: Vec<Word> },
    /// only the top `bits` bits vary
    LowEntropy { bits: u8, seed: u64 },
    Counter { start: u64, step: u64 },
}

impl Entropy {
    pub fn kind(&self) -> &'static str {
        match self {
            Entropy::Fair { .. } => "fair",
            Entropy::StuckLo => "stuck-lo",
            Entropy::StuckHi => "stuck-hi",
            Entropy::Alternating { .. } => "alternating",
            Entropy::Scripted { .. } => "scripted-extremes",
            Entropy::LowEntropy { .. } => "low-entropy",
            Entropy::Counter { .. } => "counter",
        }
    }
    pub fn is_fair(&self) -> bool {
        matches!(self, Entropy::Fair { .. })
    }
}

/// A degenerate stream is a *fault*, and faults stop: once one sampling call has drawn this many words
/// from a faulty stream, the rest of that call is served from a fair stream. Without this a sampler that
/// uses rejection (rand's own `sample_single` does) spins forever on a stuck source and the simulator with
/// it; with it the liveness statement "once the fault stops, the call returns within a bounded number of
/// words" becomes checkable.
pub const HEAL_AFTER_WORDS: u64 = 2048;
/// ... and this is the bound: no sampling call may draw this many words (a rejection loop on a fair stream
/// passing it has probability ~ 0).
pub const LIVENESS_BOUND_WORDS: u64 = 2_000_000;
pub const NO_PROGRESS_MARKER: &str = "palsim: the sampler drew more than the liveness bound of entropy words in one call";

pub struct SimRng {
    mode: Entropy,
    prng: Prng,
    heal: Prng,
    calls: u64,
    pub words_drawn: u64,
    /// words drawn since the last `mark()` (= within the current sampling call)
    since_mark: u64,
    /// how many sampling calls had their faulty stream healed
    pub healed_calls: u64,
}

impl SimRng {
    pub fn new(mode: &Entropy) -> Self {
        let seed = match mode {
            Entropy::Fair { seed } | Entropy::LowEntropy { seed, .. } => *seed,
            _ => 0,
        };
        SimRng { mode: mode.clone(), prng: Prng::new(seed), heal: Prng::new(seed ^ 0x4845_414c), calls: 0, words_drawn: 0, since_mark: 0, healed_calls: 0 }
    }

    /// Start of one sampling call.
    pub fn mark(&mut self) {
        self.since_mark = 0;
    }

    fn word(&mut self) -> u64 {
        let n = self.calls;
        self.calls += 1;
        self.words_drawn += 1;
        self.since_mark += 1;
        if self.since_mark > LIVENESS_BOUND_WORDS {
            panic!("{}", NO_PROGRESS_MARKER);
        }
        if self.since_mark > HEAL_AFTER_WORDS && !self.mode.is_fair() {
            if self.since_mark == HEAL_AFTER_WORDS + 1 {
                self.healed_calls += 1;
            }
            return self.heal.next_u64();
        }
        match &self.mode {
            Entropy::Fair { .. } => self.prng.next_u64(),
            Entropy::StuckLo => 0,
            Entropy::StuckHi => u64::MAX,
            Entropy::Alternating { period, a, b } => {
                let p = (*period).max(1) as u64;
                if (n / p) % 2 == 0 {
                    a.value()
                } else {
                    b.value()
                }
            }
            Entropy::Scripted { words } => {
                if words.is_empty() {
                    0
                } else {
                    words[(n % words.len() as u64) as usize].value()
                }
            }
            Entropy::LowEntropy { bits, .. } => {
                let b = (*bits).clamp(1, 32) as u32;
                let r = self.prng.next_u64();
                // keep the top `b` bits of both halves, so that u32 and u64 draws agree in quality
                let hi = (r >> 32) as u32 >> (32 - b) << (32 - b);
                ((hi as u64) << 32) | hi as u64
            }
            Entropy::Counter { start, step } => {
                let v = start.wrapping_add(step.wrapping_mul(n));
                // spread the counter into the bits rand keeps
                v.rotate_left(40) ^ (v << 20)
            }
        }
    }
}

impl RngCore for SimRng {
    fn next_u32(&mut self) -> u32 {
        (self.word() >> 32) as u32
    }
    fn next_u64(&mut self) -> u64 {
        self.word()
    }
    fn fill_bytes(&mut self, dest: &mut [u8]) {
        for chunk in dest.chunks_mut(8) {
            let w = self.word().to_le_bytes();
            chunk.copy_from_slice(&w[..chunk.len()]);
        }
    }
    fn try_fill_bytes(&mut self, dest: &mut [u8]) -> Result<(), rand::Error> {
        self.fill_bytes(dest);
        Ok(())
    }
}
