//! One adapter per serializable type: every color type with serde support in
//! f32 and f64 (u8/u16 too for Rgb and Luma), each plain, wrapped in `Alpha`
//! and (where `Premultiply` is implemented) in `PreAlpha`; the five hue
//! newtypes; and user-defined colors of every serde shape wrapped in `Alpha`.
//! The adapters only build values and hand them to palette's real
//! `Serialize`/`Deserialize` impls and helper functions.

use crate::io::{IoPlan, SimReader, SimWriter};
use crate::tok::{Peer, Presentation, Rec, Replay, SimError, Tok};
use palette::blend::PreAlpha;
use palette::hues::Cam16Hue;
use palette::{Alpha, LabHue, LuvHue, OklabHue, RgbHue};
use serde::de::DeserializeOwned;
use serde::{Deserialize, Serialize};
use crate::types::*;
use std::fmt::Debug;
use std::io::{Read, Write};

pub trait Case: Serialize + DeserializeOwned + PartialEq + Debug + Sized {
    fn build(vals: &[f64]) -> Self;
    /// components as f64 bit patterns (widening is exact for every scalar used)
    fn comps(&self) -> Vec<u64>;
}

#[derive(Debug, Clone, PartialEq)]
pub struct Outcome {
    pub comps: Vec<u64>,
    /// the type's own `PartialEq` against the expected value
    pub eq: bool,
}

fn outcome<X: Case>(x: X, expect: &[f64]) -> Outcome {
    let e = X::build(expect);
    Outcome { eq: x == e, comps: x.comps() }
}

#[derive(Clone, Copy, Debug, PartialEq, Eq)]
pub enum Wrapper {
    None,
    Alpha,
    PreAlpha,
}

#[derive(Clone, Copy, Debug, PartialEq, Eq)]
pub enum Shape {
    Struct,
    TupleStruct,
    Newtype,
    /// a unit struct
    Unit,
    Hue,
    /// a real tuple `(a, b)`
    Tuple,
    /// the unit type `()`
    UnitType,
    /// a color with a hand-written fixed-length *sequence* representation (`serialize_seq` /
    /// `deserialize_seq`): the adapters' `SerializeSeq` and `AlphaSeqVisitor` paths
    Seq,
}

#[derive(Clone, Copy, Debug, PartialEq, Eq)]
pub enum RonStyle {
    Compact,
    Named,
    Pretty,
}

pub type IoResult<T> = Result<T, String>;

pub struct Ops {
    pub record: fn(&[f64], &Peer) -> Result<Tok, SimError>,
    pub replay: fn(&Tok, &Presentation, &Peer, &[f64]) -> Result<Outcome, SimError>,
    pub json_string: fn(&[f64]) -> IoResult<String>,
    pub json_write: fn(&[f64], &mut SimWriter<'_>) -> IoResult<()>,
    pub json_from_str: fn(&str, &[f64]) -> IoResult<Outcome>,
    pub json_from_slice: fn(&[u8], &[f64]) -> IoResult<Outcome>,
    /// `Deserialize::deserialize_in_place` into a value that already exists (built from the second argument)
    pub json_in_place: fn(&str, &[f64], &[f64]) -> IoResult<Outcome>,
    pub json_from_reader: fn(&mut SimReader<'_>, &[f64]) -> IoResult<Outcome>,
    pub json_via_value: fn(&[f64]) -> IoResult<Outcome>,
    pub ron_string: fn(&[f64], RonStyle) -> IoResult<String>,
    pub ron_write: fn(&[f64], &mut SimWriter<'_>) -> IoResult<()>,
    pub ron_from_str: fn(&str, &[f64]) -> IoResult<Outcome>,
    pub ron_from_reader: fn(&mut SimReader<'_>, &[f64]) -> IoResult<Outcome>,
    /// the color as the payload of a user enum (`style`: untagged, internally tagged, adjacently tagged),
    /// through JSON text, a `serde_json::Value` or RON
    pub enum_round: fn(&[f64], u8, u8) -> IoResult<EnumRound>,
    /// several colors in one document (a vector, an option, a tuple, a map, a user struct with other colors
    /// and scalars in between, a stream of documents): what one conversation leaves behind must not reach the next
    pub container_round: fn(&ContainerArgs<'_>) -> IoResult<ContainerRound>,
}

/// Result of one enum-wrapped round trip.
pub enum EnumRound {
    /// the format refused to write this shape under this tagging (serde cannot put a tag into a sequence or number)
    NotExpressible(String),
    Back { text: String, outcome: Outcome },
    /// (style 3 only) the document was taken by one of the other color types of the enum: which one, and that
    /// value written out again
    OtherVariant { text: String, which: &'static str, back_text: String },
}

pub struct OptOps {
    /// `deserialize_with_optional_alpha` / `_pre_alpha` on the simulated peer
    pub replay: fn(&Tok, &Presentation, &Peer, &[f64]) -> Result<Outcome, SimError>,
    /// ... and on serde_json
    pub json_from_str: fn(&str, &[f64]) -> IoResult<Outcome>,
    /// ... and on ron (which writes a present option differently from the bare value)
    pub ron_from_str: fn(&str, &[f64]) -> IoResult<Outcome>,
}

pub struct ArrOps {
    /// `serialize_as_array` into the recording peer
    pub record: fn(&[f64], &Peer) -> Result<Tok, SimError>,
    /// `deserialize_as_array` from the replaying peer
    pub replay: fn(&Tok, &Presentation, &Peer, &[f64]) -> Result<Outcome, SimError>,
    /// `cast::into_array` of the value, serialized on its own (what the helper must match)
    pub cast_tok: fn(&[f64]) -> Tok,
    pub json_string: fn(&[f64]) -> IoResult<String>,
    pub json_from_str: fn(&str, &[f64]) -> IoResult<Outcome>,
}

pub struct CaseDesc {
    pub name: &'static str,
    pub color: &'static str,
    pub wrapper: Wrapper,
    pub scalar: &'static str,
    /// scalar type of the alpha slot when it differs from the color's components
    pub alpha_scalar: Option<&'static str>,
    pub shape: Shape,
    /// serde name of the container
    pub ser_name: &'static str,
    /// the color's own fields, in order, without alpha
    pub fields: &'static [&'static str],
    pub hue_slot: Option<usize>,
    /// the field in this slot is `skip_serializing_if` zero (the serializer then calls `skip_field`)
    pub skip_zero_slot: Option<usize>,
    /// number of values needed to build it (components incl. alpha)
    pub nvals: usize,
    pub ops: Ops,
    pub opt: Option<OptOps>,
    pub arr: Option<ArrOps>,
    /// name of the unwrapped case (for the stable-shape comparison)
    pub inner: Option<&'static str>,
}

// ------------------------------------------------------------------ generic entry points

fn record<X: Case>(vals: &[f64], peer: &Peer) -> Result<Tok, SimError> {
    X::build(vals).serialize(Rec { peer })
}
fn replay<X: Case>(tok: &Tok, pres: &Presentation, peer: &Peer, expect: &[f64]) -> Result<Outcome, SimError> {
    let x = X::deserialize(Replay { tok, pres, peer, top: true })?;
    Ok(outcome(x, expect))
}
fn json_string<X: Case>(vals: &[f64]) -> IoResult<String> {
    serde_json::to_string(&X::build(vals)).map_err(|e| e.to_string())
}
fn json_write<X: Case>(vals: &[f64], w: &mut SimWriter<'_>) -> IoResult<()> {
    serde_json::to_writer(w, &X::build(vals)).map_err(|e| e.to_string())
}
fn json_from_str<X: Case>(text: &str, expect: &[f64]) -> IoResult<Outcome> {
    serde_json::from_str::<X>(text).map(|x| outcome(x, expect)).map_err(|e| e.to_string())
}
fn json_from_slice<X: Case>(bytes: &[u8], expect: &[f64]) -> IoResult<Outcome> {
    serde_json::from_slice::<X>(bytes).map(|x| outcome(x, expect)).map_err(|e| e.to_string())
}
fn json_in_place<X: Case>(text: &str, place: &[f64], expect: &[f64]) -> IoResult<Outcome> {
    let mut x = X::build(place);
    let mut de = serde_json::Deserializer::from_str(text);
    serde::Deserialize::deserialize_in_place(&mut de, &mut x).map_err(|e| e.to_string())?;
    de.end().map_err(|e| e.to_string())?;
    Ok(outcome(x, expect))
}
fn json_from_reader<X: Case>(r: &mut SimReader<'_>, expect: &[f64]) -> IoResult<Outcome> {
    serde_json::from_reader::<_, X>(r).map(|x| outcome(x, expect)).map_err(|e| e.to_string())
}
fn json_via_value<X: Case>(vals: &[f64]) -> IoResult<Outcome> {
    let v = serde_json::to_value(X::build(vals)).map_err(|e| e.to_string())?;
    serde_json::from_value::<X>(v).map(|x| outcome(x, vals)).map_err(|e| e.to_string())
}
fn ron_string<X: Case>(vals: &[f64], style: RonStyle) -> IoResult<String> {
    let x = X::build(vals);
    match style {
        RonStyle::Compact => ron::ser::to_string(&x).map_err(|e| e.to_string()),
        RonStyle::Named => ron::ser::to_string_pretty(&x, ron::ser::PrettyConfig::new().struct_names(true).new_line(String::new()).indentor(String::new()))
            .map_err(|e| e.to_string()),
        RonStyle::Pretty => ron::ser::to_string_pretty(&x, ron::ser::PrettyConfig::new()).map_err(|e| e.to_string()),
    }
}
fn ron_write<X: Case>(vals: &[f64], w: &mut SimWriter<'_>) -> IoResult<()> {
    ron::ser::to_writer(w, &X::build(vals)).map_err(|e| e.to_string())
}
fn ron_from_str<X: Case>(text: &str, expect: &[f64]) -> IoResult<Outcome> {
    ron::de::from_str::<X>(text).map(|x| outcome(x, expect)).map_err(|e| e.to_string())
}
fn ron_from_reader<X: Case>(r: &mut SimReader<'_>, expect: &[f64]) -> IoResult<Outcome> {
    ron::de::from_reader::<_, X>(r).map(|x| outcome(x, expect)).map_err(|e| e.to_string())
}

// The color as the payload of a user enum. serde buffers untagged and internally tagged enums into its
// private `Content` tree and replays it through `ContentDeserializer` (exact size hints, borrowed and owned
// keys, a check that nothing is left over) — the way colors in configuration files are very often read.
#[derive(Serialize, Deserialize, Debug)]
#[serde(untagged)]
enum EnumUntagged<X> {
    Other { palsim_other: String },
    Color(X),
}
#[derive(Serialize, Deserialize, Debug)]
#[serde(tag = "kind")]
enum EnumInternal<X> {
    Other { palsim_other: String },
    Color(X),
}
#[derive(Serialize, Deserialize, Debug)]
#[serde(tag = "kind", content = "value")]
enum EnumAdjacent<X> {
    Other { palsim_other: String },
    Color(X),
}

/// An untagged enum in which the color stands among other palette colors ("a palette file with colors of several
/// kinds"): serde tries the variants in order, and the first type that accepts the document wins. A type accepts a
/// document of another type only if it finds all of its own fields in it.
#[derive(Serialize, Deserialize, Debug)]
#[serde(untagged)]
enum EnumAmong<X> {
    Rgb(palette::Srgba),
    Hsl(palette::Hsla),
    Hsv(palette::Hsva),
    Hwb(palette::Hwba),
    Hsluv(palette::Hsluva),
    Lab(palette::Laba),
    Lch(palette::Lcha),
    Luv(palette::Luva),
    Xyz(palette::Xyza),
    Yxy(palette::Yxya),
    Lms(Alpha<LmsC<f32>, f32>),
    Jmh(Alpha<Cam16UcsJmhC<f32>, f32>),
    Jab(Alpha<Cam16UcsJabC<f32>, f32>),
    Luma(palette::SrgbLumaa),
    Color(X),
}

fn enum_among<X: Case>(vals: &[f64], via: u8) -> IoResult<EnumRound> {
    let doc = EnumAmong::Color(X::build(vals));
    let (text, back) = if via == 1 {
        let v = match serde_json::to_value(&doc) {
            Ok(t) => t,
            Err(e) => return Ok(EnumRound::NotExpressible(e.to_string())),
        };
        let text = v.to_string();
        let b = serde_json::from_value::<EnumAmong<X>>(v).map_err(|e| format!("{text} -> {e}"))?;
        (text, b)
    } else {
        let text = match serde_json::to_string(&doc) {
            Ok(t) => t,
            Err(e) => return Ok(EnumRound::NotExpressible(e.to_string())),
        };
        let b = serde_json::from_str::<EnumAmong<X>>(&text).map_err(|e| format!("{text} -> {e}"))?;
        (text, b)
    };
    macro_rules! other {
        ($($v:ident),+) => {
            match back {
                EnumAmong::Color(x) => Ok(EnumRound::Back { text, outcome: outcome(x, vals) }),
                $(EnumAmong::$v(c) => Ok(EnumRound::OtherVariant { text, which: stringify!($v), back_text: serde_json::to_string(&c).map_err(|e| e.to_string())? }),)+
            }
        };
    }
    other!(Rgb, Hsl, Hsv, Hwb, Hsluv, Lab, Lch, Luv, Xyz, Yxy, Lms, Jmh, Jab, Luma)
}

/// The document offered to every color type of the twenty serializable families in turn (with and without alpha, `f32`),
/// the way an untagged enum would in whatever order its author listed them: for each type that accepts it, the
/// type's name and the accepted value written out again.
pub fn cross_read(text: &str) -> Vec<(&'static str, String)> {
    let mut out = Vec::new();
    macro_rules! offer {
        ($($name:literal: $ty:ty),+ $(,)?) => {$(
            if let Ok(c) = serde_json::from_str::<$ty>(text) {
                if let Ok(t) = serde_json::to_string(&c) {
                    out.push(($name, t));
                }
            }
            if let Ok(c) = serde_json::from_str::<Alpha<$ty, f32>>(text) {
                if let Ok(t) = serde_json::to_string(&c) {
                    out.push((concat!($name, "+alpha"), t));
                }
            }
        )+};
    }
    offer!(
        "Rgb": RgbC<f32>, "Luma": LumaC<f32>, "Xyz": XyzC<f32>, "Yxy": YxyC<f32>, "Lab": LabC<f32>, "Luv": LuvC<f32>,
        "Oklab": OklabC<f32>, "Lms": LmsC<f32>, "Cam16UcsJab": Cam16UcsJabC<f32>, "Hsl": HslC<f32>, "Hsv": HsvC<f32>,
        "Hwb": HwbC<f32>, "Hsluv": HsluvC<f32>, "Lch": LchC<f32>, "Lchuv": LchuvC<f32>, "Oklch": OklchC<f32>,
        "Okhsl": OkhslC<f32>, "Okhsv": OkhsvC<f32>, "Okhwb": OkhwbC<f32>, "Cam16UcsJmh": Cam16UcsJmhC<f32>,
    );
    out
}

fn enum_round<X: Case>(vals: &[f64], style: u8, via: u8) -> IoResult<EnumRound> {
    if style == 3 {
        return enum_among::<X>(vals, via);
    }
    macro_rules! go {
        ($E:ident) => {{
            let doc = $E::Color(X::build(vals));
            let back: (String, $E<X>) = match via {
                0 => {
                    let text = match serde_json::to_string(&doc) {
                        Ok(t) => t,
                        Err(e) => return Ok(EnumRound::NotExpressible(e.to_string())),
                    };
                    let b = serde_json::from_str::<$E<X>>(&text).map_err(|e| format!("{text} -> {e}"))?;
                    (text, b)
                }
                1 => {
                    let v = match serde_json::to_value(&doc) {
                        Ok(t) => t,
                        Err(e) => return Ok(EnumRound::NotExpressible(e.to_string())),
                    };
                    let text = v.to_string();
                    let b = serde_json::from_value::<$E<X>>(v).map_err(|e| format!("{text} -> {e}"))?;
                    (text, b)
                }
                _ => {
                    let text = match ron::ser::to_string(&doc) {
                        Ok(t) => t,
                        Err(e) => return Ok(EnumRound::NotExpressible(e.to_string())),
                    };
                    let b = ron::de::from_str::<$E<X>>(&text).map_err(|e| format!("{text} -> {e}"))?;
                    (text, b)
                }
            };
            match back {
                (text, $E::Color(x)) => Ok(EnumRound::Back { text, outcome: outcome(x, vals) }),
                (text, other) => Err(format!("{text} -> read back as another variant: {other:?}")),
            }
        }};
    }
    match style {
        0 => go!(EnumUntagged),
        1 => go!(EnumInternal),
        _ => go!(EnumAdjacent),
    }
}

// ------------------------------------------------------------------ colors inside larger documents

pub struct ContainerArgs<'a> {
    /// up to three values of the case's type
    pub vals: [&'a [f64]; 3],
    pub form: u8,
    /// 0 JSON text, 1 `serde_json::Value`, 2 RON text, 3 JSON from a simulated reader
    pub via: u8,
    /// number of elements for the vector and stream forms (0..=3)
    pub n: u8,
    pub read: &'a IoPlan,
}

pub const CONTAINER_FORMS: [&str; 11] =
    ["vec", "option-some", "option-none", "tuple", "array", "map", "mixed-struct", "tuple-with-others", "vec-of-pairs", "newtype", "stream"];

pub enum ContainerRound {
    NotExpressible(String),
    Back {
        text: String,
        /// the same document put together from each part serialized on its own (JSON and RON text)
        composed: Option<String>,
        /// one outcome per color position, in document order
        outcomes: Vec<(usize, Outcome)>,
        /// everything that is not a color of the case's type came back equal
        others_ok: bool,
        io: Option<crate::io::IoStats>,
    },
}

#[derive(Serialize, Deserialize, Debug, PartialEq)]
#[serde(bound(serialize = "X: Serialize", deserialize = "X: DeserializeOwned"))]
struct Mixed<X> {
    before: u32,
    first: X,
    mid: palette::Hsla,
    second: X,
    plain: palette::LinSrgb<f64>,
    bytes: palette::Srgba<u8>,
    after: String,
    last: X,
}

#[derive(Serialize, Deserialize, Debug, PartialEq)]
#[serde(bound(serialize = "X: Serialize", deserialize = "X: DeserializeOwned"))]
struct Wrap<X>(X);

enum RoundErr {
    NotExpressible(String),
    Failed(String),
}

fn round_doc<D: Serialize + DeserializeOwned>(doc: &D, via: u8, read: &IoPlan) -> Result<(String, D, Option<crate::io::IoStats>), RoundErr> {
    match via {
        1 => {
            let v = serde_json::to_value(doc).map_err(|e| RoundErr::NotExpressible(e.to_string()))?;
            let text = v.to_string();
            let b = serde_json::from_value::<D>(v).map_err(|e| RoundErr::Failed(format!("{text} -> {e}")))?;
            Ok((text, b, None))
        }
        2 => {
            let text = ron::ser::to_string(doc).map_err(|e| RoundErr::NotExpressible(e.to_string()))?;
            let b = ron::de::from_str::<D>(&text).map_err(|e| RoundErr::Failed(format!("{text} -> {e}")))?;
            Ok((text, b, None))
        }
        3 => {
            let text = serde_json::to_string(doc).map_err(|e| RoundErr::NotExpressible(e.to_string()))?;
            let mut r = SimReader::new(text.as_bytes(), read);
            let b = serde_json::from_reader::<_, D>(&mut r).map_err(|e| RoundErr::Failed(format!("{text} (from a reader) -> {e}")))?;
            let st = r.stats;
            Ok((text, b, Some(st)))
        }
        _ => {
            let text = serde_json::to_string(doc).map_err(|e| RoundErr::NotExpressible(e.to_string()))?;
            let b = serde_json::from_str::<D>(&text).map_err(|e| RoundErr::Failed(format!("{text} -> {e}")))?;
            Ok((text, b, None))
        }
    }
}

fn container_round<X: Case>(a: &ContainerArgs<'_>) -> IoResult<ContainerRound> {
    let ron = a.via == 2;
    let n = (a.n as usize).min(3);
    let build = |i: usize| X::build(a.vals[i]);
    // every part on its own, in the same format
    let part = |i: usize| -> Option<String> {
        if ron {
            ron::ser::to_string(&build(i)).ok()
        } else {
            serde_json::to_string(&build(i)).ok()
        }
    };
    let own = |v: &dyn erased::Ser| -> Option<String> { v.text(ron) };
    macro_rules! finish {
        ($doc:expr, $composed:expr, $extract:expr, $others:expr) => {{
            let doc = $doc;
            match round_doc(&doc, a.via, a.read) {
                Ok((text, back, io)) => {
                    let others_ok: bool = ($others)(&doc, &back);
                    let xs: Vec<(usize, X)> = ($extract)(back);
                    let outcomes = xs.into_iter().map(|(i, x)| (i, outcome(x, a.vals[i]))).collect();
                    let composed: Option<String> = if a.via == 1 { None } else { $composed };
                    Ok(ContainerRound::Back { text, composed, outcomes, others_ok, io })
                }
                Err(RoundErr::NotExpressible(e)) => Ok(ContainerRound::NotExpressible(e)),
                Err(RoundErr::Failed(e)) => Err(e),
            }
        }};
    }
    match a.form {
        0 => finish!(
            (0..n).map(build).collect::<Vec<X>>(),
            (0..n).map(part).collect::<Option<Vec<String>>>().map(|p| format!("[{}]", p.join(","))),
            |b: Vec<X>| b.into_iter().enumerate().collect::<Vec<_>>(),
            |d: &Vec<X>, b: &Vec<X>| d.len() == b.len()
        ),
        1 => finish!(
            Some(build(0)),
            part(0).map(|p| if ron { format!("Some({p})") } else { p }),
            |b: Option<X>| b.into_iter().map(|x| (0, x)).collect::<Vec<_>>(),
            |_d: &Option<X>, b: &Option<X>| b.is_some()
        ),
        2 => finish!(
            None::<X>,
            Some(if ron { "None".to_string() } else { "null".to_string() }),
            |b: Option<X>| b.into_iter().map(|x| (0, x)).collect::<Vec<_>>(),
            |_d: &Option<X>, b: &Option<X>| b.is_none()
        ),
        3 => finish!(
            (build(0), build(1)),
            part(0).zip(part(1)).map(|(p, q)| if ron { format!("({p},{q})") } else { format!("[{p},{q}]") }),
            |b: (X, X)| vec![(0, b.0), (1, b.1)],
            |_d: &(X, X), _b: &(X, X)| true
        ),
        4 => finish!(
            [build(0), build(1)],
            part(0).zip(part(1)).map(|(p, q)| if ron { format!("({p},{q})") } else { format!("[{p},{q}]") }),
            |b: [X; 2]| {
                let [x, y] = b;
                vec![(0, x), (1, y)]
            },
            |_d: &[X; 2], _b: &[X; 2]| true
        ),
        5 => finish!(
            {
                let mut m = std::collections::BTreeMap::new();
                m.insert("first".to_string(), build(0));
                m.insert("second".to_string(), build(1));
                m
            },
            part(0).zip(part(1)).map(|(p, q)| format!("{{\"first\":{p},\"second\":{q}}}")),
            |mut b: std::collections::BTreeMap<String, X>| {
                let mut out = Vec::new();
                if let Some(x) = b.remove("first") {
                    out.push((0, x));
                }
                if let Some(x) = b.remove("second") {
                    out.push((1, x));
                }
                out
            },
            |_d: &std::collections::BTreeMap<String, X>, b: &std::collections::BTreeMap<String, X>| b.len() == 2 && b.contains_key("first") && b.contains_key("second")
        ),
        6 => {
            let mid = palette::Hsla::new(120.0, 0.5, 0.25, 0.75);
            let plain = palette::LinSrgb::<f64>::new(0.125, 0.5, 1.0);
            let bytes = palette::Srgba::<u8>::new(1, 2, 3, 4);
            finish!(
                Mixed { before: 7, first: build(0), mid, second: build(1), plain, bytes, after: "end".to_string(), last: build(2) },
                (|| {
                    let (p, q, r) = (part(0)?, part(1)?, part(2)?);
                    let (m, pl, by) = (own(&mid)?, own(&plain)?, own(&bytes)?);
                    Some(if ron {
                        format!("(before:7,first:{p},mid:{m},second:{q},plain:{pl},bytes:{by},after:\"end\",last:{r})")
                    } else {
                        format!("{{\"before\":7,\"first\":{p},\"mid\":{m},\"second\":{q},\"plain\":{pl},\"bytes\":{by},\"after\":\"end\",\"last\":{r}}}")
                    })
                })(),
                |b: Mixed<X>| vec![(0, b.first), (1, b.second), (2, b.last)],
                |d: &Mixed<X>, b: &Mixed<X>| d.before == b.before && d.mid == b.mid && d.plain == b.plain && d.bytes == b.bytes && d.after == b.after
            )
        }
        7 => {
            let lab = palette::Laba::<palette::white_point::D65, f32>::new(50.0, -12.5, 20.25, 0.5);
            finish!(
                (0.5f32, build(0), lab),
                part(0).zip(own(&lab)).map(|(p, l)| if ron { format!("(0.5,{p},{l})") } else { format!("[0.5,{p},{l}]") }),
                |b: (f32, X, palette::Laba)| vec![(0, b.1)],
                |d: &(f32, X, palette::Laba), b: &(f32, X, palette::Laba)| d.0 == b.0 && d.2 == b.2
            )
        }
        8 => finish!(
            vec![(build(0), 1u8), (build(1), 2u8)],
            part(0).zip(part(1)).map(|(p, q)| if ron { format!("[({p},1),({q},2)]") } else { format!("[[{p},1],[{q},2]]") }),
            |b: Vec<(X, u8)>| b.into_iter().enumerate().map(|(i, (x, _))| (i.min(2), x)).collect::<Vec<_>>(),
            |d: &Vec<(X, u8)>, b: &Vec<(X, u8)>| d.len() == b.len() && d.iter().zip(b.iter()).all(|(x, y)| x.1 == y.1)
        ),
        9 => finish!(
            Wrap(build(0)),
            part(0).map(|p| if ron { format!("({p})") } else { p }),
            |b: Wrap<X>| vec![(0, b.0)],
            |_d: &Wrap<X>, _b: &Wrap<X>| true
        ),
        _ => {
            // a stream of documents on one connection (JSON only): the color is not the last thing in the stream
            let parts: Vec<String> = match (0..n).map(|i| serde_json::to_string(&build(i)).ok()).collect::<Option<Vec<_>>>() {
                Some(p) => p,
                None => return Ok(ContainerRound::NotExpressible("a part could not be written".into())),
            };
            let mut text = String::new();
            for (i, p) in parts.iter().enumerate() {
                text.push_str(p);
                text.push_str(if i % 2 == 0 { " " } else { "\n" });
            }
            let mut xs = Vec::new();
            let mut io = None;
            if a.via == 3 {
                let mut r = SimReader::new(text.as_bytes(), a.read);
                for item in serde_json::Deserializer::from_reader(&mut r).into_iter::<X>() {
                    xs.push(item.map_err(|e| format!("{text} (stream from a reader) -> {e}"))?);
                }
                io = Some(r.stats);
            } else {
                for item in serde_json::Deserializer::from_str(&text).into_iter::<X>() {
                    xs.push(item.map_err(|e| format!("{text} (stream) -> {e}"))?);
                }
            }
            let others_ok = xs.len() == n;
            let outcomes = xs.into_iter().enumerate().take(3).map(|(i, x)| (i, outcome(x, a.vals[i]))).collect();
            Ok(ContainerRound::Back { text, composed: None, outcomes, others_ok, io })
        }
    }
}

mod erased {
    /// "serialize this on its own, as JSON or RON" for the fixed companion values of the mixed documents
    pub trait Ser {
        fn text(&self, ron: bool) -> Option<String>;
    }
    impl<T: serde::Serialize> Ser for T {
        fn text(&self, ron: bool) -> Option<String> {
            if ron {
                ron::ser::to_string(self).ok()
            } else {
                serde_json::to_string(self).ok()
            }
        }
    }
}

const fn ops<X: Case>() -> Ops {
    Ops {
        record: record::<X>,
        replay: replay::<X>,
        json_string: json_string::<X>,
        json_write: json_write::<X>,
        json_from_str: json_from_str::<X>,
        json_from_slice: json_from_slice::<X>,
        json_in_place: json_in_place::<X>,
        json_from_reader: json_from_reader::<X>,
        json_via_value: json_via_value::<X>,
        ron_string: ron_string::<X>,
        ron_write: ron_write::<X>,
        ron_from_str: ron_from_str::<X>,
        ron_from_reader: ron_from_reader::<X>,
        enum_round: enum_round::<X>,
        container_round: container_round::<X>,
    }
}

// Helper entry points. These are MACROS that expand to closures over concrete types, not generic
// functions: a generic wrapper would have to repeat palette's own trait bounds (`A: Stimulus`,
// `T: ArrayCast`, ...), and then a change to one of those bounds in palette — which every concrete
// caller survives — would stop the harness from building instead of being judged. (Learnt from a seeded
// change that relaxed `A: Stimulus` to `A: num::One` on `deserialize_with_optional_alpha`.)
macro_rules! opt_ops_alpha {
    ($col:ty, $a:ty) => {
        OptOps {
            replay: |tok: &Tok, pres: &Presentation, peer: &Peer, expect: &[f64]| -> Result<Outcome, SimError> {
                let x: Alpha<$col, $a> = palette::serde::deserialize_with_optional_alpha(Replay { tok, pres, peer, top: true })?;
                Ok(outcome(x, expect))
            },
            json_from_str: |text: &str, expect: &[f64]| -> IoResult<Outcome> {
                let mut de = serde_json::Deserializer::from_str(text);
                let x: Alpha<$col, $a> = palette::serde::deserialize_with_optional_alpha(&mut de).map_err(|e| e.to_string())?;
                de.end().map_err(|e| e.to_string())?;
                Ok(outcome(x, expect))
            },
            ron_from_str: |text: &str, expect: &[f64]| -> IoResult<Outcome> {
                let mut de = ron::de::Deserializer::from_str(text).map_err(|e| e.to_string())?;
                let x: Alpha<$col, $a> = palette::serde::deserialize_with_optional_alpha(&mut de).map_err(|e| e.to_string())?;
                de.end().map_err(|e| e.to_string())?;
                Ok(outcome(x, expect))
            },
        }
    };
}

macro_rules! opt_ops_pre {
    ($col:ty) => {
        OptOps {
            replay: |tok: &Tok, pres: &Presentation, peer: &Peer, expect: &[f64]| -> Result<Outcome, SimError> {
                let x: PreAlpha<$col> = palette::serde::deserialize_with_optional_pre_alpha(Replay { tok, pres, peer, top: true })?;
                Ok(outcome(x, expect))
            },
            json_from_str: |text: &str, expect: &[f64]| -> IoResult<Outcome> {
                let mut de = serde_json::Deserializer::from_str(text);
                let x: PreAlpha<$col> = palette::serde::deserialize_with_optional_pre_alpha(&mut de).map_err(|e| e.to_string())?;
                de.end().map_err(|e| e.to_string())?;
                Ok(outcome(x, expect))
            },
            ron_from_str: |text: &str, expect: &[f64]| -> IoResult<Outcome> {
                let mut de = ron::de::Deserializer::from_str(text).map_err(|e| e.to_string())?;
                let x: PreAlpha<$col> = palette::serde::deserialize_with_optional_pre_alpha(&mut de).map_err(|e| e.to_string())?;
                de.end().map_err(|e| e.to_string())?;
                Ok(outcome(x, expect))
            },
        }
    };
}

macro_rules! arr_ops {
    ($x:ty) => {
        ArrOps {
            record: |vals: &[f64], peer: &Peer| -> Result<Tok, SimError> { palette::serde::serialize_as_array(&<$x as Case>::build(vals), Rec { peer }) },
            replay: |tok: &Tok, pres: &Presentation, peer: &Peer, expect: &[f64]| -> Result<Outcome, SimError> {
                let x: $x = palette::serde::deserialize_as_array(Replay { tok, pres, peer, top: false })?;
                Ok(outcome(x, expect))
            },
            cast_tok: |vals: &[f64]| -> Tok {
                let peer = Peer::new(None);
                palette::cast::into_array(<$x as Case>::build(vals)).serialize(Rec { peer: &peer }).expect("recording an array cannot fail")
            },
            json_string: |vals: &[f64]| -> IoResult<String> {
                let mut out = Vec::new();
                palette::serde::serialize_as_array(&<$x as Case>::build(vals), &mut serde_json::Serializer::new(&mut out)).map_err(|e| e.to_string())?;
                String::from_utf8(out).map_err(|e| e.to_string())
            },
            json_from_str: |text: &str, expect: &[f64]| -> IoResult<Outcome> {
                let mut de = serde_json::Deserializer::from_str(text);
                let x: $x = palette::serde::deserialize_as_array(&mut de).map_err(|e| e.to_string())?;
                de.end().map_err(|e| e.to_string())?;
                Ok(outcome(x, expect))
            },
        }
    };
}

// ------------------------------------------------------------------ per-type tables

pub trait FromF64 {
    fn from_f64(x: f64) -> Self;
}
impl FromF64 for f32 {
    fn from_f64(x: f64) -> f32 {
        x as f32
    }
}
impl FromF64 for f64 {
    fn from_f64(x: f64) -> f64 {
        x
    }
}
impl FromF64 for u8 {
    fn from_f64(x: f64) -> u8 {
        x as u8
    }
}
impl FromF64 for u16 {
    fn from_f64(x: f64) -> u16 {
        x as u16
    }
}
#[inline]
pub fn sc<T: FromF64>(x: f64) -> T {
    T::from_f64(x)
}

macro_rules! color_body {
    ($name:literal, $sername:literal, $c:ident, $t:ident, $tn:literal, [$($f:ident),+], $hue:expr, $premul:tt,
     |$v:ident| $mk:expr, |$g:ident| [$($get:expr),+]) => {
        use super::super::*;
        type T = $t;
        type Col = $c<T>;
        pub const N: usize = [$(stringify!($f)),+].len();

        impl Case for Col {
            fn build($v: &[f64]) -> Self { $mk }
            fn comps(&self) -> Vec<u64> { let $g = self; vec![$((($get) as f64).to_bits()),+] }
        }
        impl Case for Alpha<Col, T> {
            fn build(v: &[f64]) -> Self { Alpha { color: <Col as Case>::build(v), alpha: sc::<T>(v[N]) } }
            fn comps(&self) -> Vec<u64> { let mut c = self.color.comps(); c.push((self.alpha as f64).to_bits()); c }
        }
        pub const FIELDS: &[&str] = &[$(stringify!($f)),+];

        pub static PLAIN: CaseDesc = CaseDesc {
            name: concat!($name, "<", $tn, ">"), color: $name, wrapper: Wrapper::None, scalar: $tn, alpha_scalar: None, shape: Shape::Struct,
            ser_name: $sername, fields: FIELDS, hue_slot: $hue, skip_zero_slot: None, nvals: N,
            ops: ops::<Col>(), opt: None, arr: Some(arr_ops!(Col)), inner: None,
        };
        pub static ALPHA: CaseDesc = CaseDesc {
            name: concat!("Alpha<", $name, "<", $tn, ">>"), color: $name, wrapper: Wrapper::Alpha, scalar: $tn, alpha_scalar: None, shape: Shape::Struct,
            ser_name: $sername, fields: FIELDS, hue_slot: $hue, skip_zero_slot: None, nvals: N + 1,
            ops: ops::<Alpha<Col, T>>(),
            opt: Some(opt_ops_alpha!(Col, T)),
            arr: Some(arr_ops!(Alpha<Col, T>)),
            inner: Some(concat!($name, "<", $tn, ">")),
        };
        color_body!(@premul $premul, $name, $sername, $tn, $hue);
    };
    (@premul yes, $name:literal, $sername:literal, $tn:literal, $hue:expr) => {
        impl Case for PreAlpha<Col> {
            fn build(v: &[f64]) -> Self { PreAlpha { color: <Col as Case>::build(v), alpha: sc::<T>(v[N]) } }
            fn comps(&self) -> Vec<u64> { let mut c = self.color.comps(); c.push((self.alpha as f64).to_bits()); c }
        }
        pub static PRE: Option<CaseDesc> = Some(CaseDesc {
            name: concat!("PreAlpha<", $name, "<", $tn, ">>"), color: $name, wrapper: Wrapper::PreAlpha, scalar: $tn, alpha_scalar: None, shape: Shape::Struct,
            ser_name: $sername, fields: FIELDS, hue_slot: $hue, skip_zero_slot: None, nvals: N + 1,
            ops: ops::<PreAlpha<Col>>(),
            opt: Some(opt_ops_pre!(Col)),
            arr: None,
            inner: Some(concat!($name, "<", $tn, ">")),
        });
    };
    (@premul no, $name:literal, $sername:literal, $tn:literal, $hue:expr) => {
        pub static PRE: Option<CaseDesc> = None;
    };
}

macro_rules! ser_color {
    ($m:ident, $name:literal, $sername:literal, $c:ident, [$($f:ident),+], hue: $hue:expr, premul: $premul:tt,
     build: |$v:ident| $mk:expr, comps: |$g:ident| [$($get:expr),+]) => {
        pub mod $m {
            pub mod f32_ {
                color_body!($name, $sername, $c, f32, "f32", [$($f),+], $hue, $premul, |$v| $mk, |$g| [$($get),+]);
            }
            pub mod f64_ {
                color_body!($name, $sername, $c, f64, "f64", [$($f),+], $hue, $premul, |$v| $mk, |$g| [$($get),+]);
            }
        }
    };
}

macro_rules! ser_color_uint {
    ($m:ident, $name:literal, $sername:literal, $c:ident, [$($f:ident),+],
     build: |$v:ident| $mk:expr, comps: |$g:ident| [$($get:expr),+]) => {
        pub mod $m {
            pub mod u8_ {
                color_body!($name, $sername, $c, u8, "u8", [$($f),+], None, no, |$v| $mk, |$g| [$($get),+]);
            }
            pub mod u16_ {
                color_body!($name, $sername, $c, u16, "u16", [$($f),+], None, no, |$v| $mk, |$g| [$($get),+]);
            }
        }
    };
}

ser_color!(rgb, "Rgb", "Rgb", RgbC, [red, green, blue], hue: None, premul: yes,
    build: |v| RgbC::<T>::new(sc::<T>(v[0]), sc::<T>(v[1]), sc::<T>(v[2])), comps: |c| [c.red, c.green, c.blue]);
ser_color!(luma, "Luma", "Luma", LumaC, [luma], hue: None, premul: yes,
    build: |v| LumaC::<T>::new(sc::<T>(v[0])), comps: |c| [c.luma]);
ser_color!(xyz, "Xyz", "Xyz", XyzC, [x, y, z], hue: None, premul: yes,
    build: |v| XyzC::<T>::new(sc::<T>(v[0]), sc::<T>(v[1]), sc::<T>(v[2])), comps: |c| [c.x, c.y, c.z]);
ser_color!(yxy, "Yxy", "Yxy", YxyC, [x, y, luma], hue: None, premul: yes,
    build: |v| YxyC::<T>::new(sc::<T>(v[0]), sc::<T>(v[1]), sc::<T>(v[2])), comps: |c| [c.x, c.y, c.luma]);
ser_color!(lab, "Lab", "Lab", LabC, [l, a, b], hue: None, premul: yes,
    build: |v| LabC::<T>::new(sc::<T>(v[0]), sc::<T>(v[1]), sc::<T>(v[2])), comps: |c| [c.l, c.a, c.b]);
ser_color!(luv, "Luv", "Luv", LuvC, [l, u, v], hue: None, premul: yes,
    build: |v| LuvC::<T>::new(sc::<T>(v[0]), sc::<T>(v[1]), sc::<T>(v[2])), comps: |c| [c.l, c.u, c.v]);
ser_color!(oklab, "Oklab", "Oklab", OklabC, [l, a, b], hue: None, premul: yes,
    build: |v| OklabC::<T>::new(sc::<T>(v[0]), sc::<T>(v[1]), sc::<T>(v[2])), comps: |c| [c.l, c.a, c.b]);
ser_color!(lms, "Lms", "Lms", LmsC, [long, medium, short], hue: None, premul: yes,
    build: |v| LmsC::<T>::new(sc::<T>(v[0]), sc::<T>(v[1]), sc::<T>(v[2])), comps: |c| [c.long, c.medium, c.short]);
ser_color!(cam16ucsjab, "Cam16UcsJab", "Cam16UcsJab", Cam16UcsJabC, [lightness, a, b], hue: None, premul: yes,
    build: |v| Cam16UcsJabC::<T>::new(sc::<T>(v[0]), sc::<T>(v[1]), sc::<T>(v[2])), comps: |c| [c.lightness, c.a, c.b]);
ser_color!(hsl, "Hsl", "Hsl", HslC, [hue, saturation, lightness], hue: Some(0), premul: no,
    build: |v| HslC::<T>::new(sc::<T>(v[0]), sc::<T>(v[1]), sc::<T>(v[2])), comps: |c| [c.hue.into_raw_degrees(), c.saturation, c.lightness]);
ser_color!(hsv, "Hsv", "Hsv", HsvC, [hue, saturation, value], hue: Some(0), premul: no,
    build: |v| HsvC::<T>::new(sc::<T>(v[0]), sc::<T>(v[1]), sc::<T>(v[2])), comps: |c| [c.hue.into_raw_degrees(), c.saturation, c.value]);
ser_color!(hwb, "Hwb", "Hwb", HwbC, [hue, whiteness, blackness], hue: Some(0), premul: no,
    build: |v| HwbC::<T>::new(sc::<T>(v[0]), sc::<T>(v[1]), sc::<T>(v[2])), comps: |c| [c.hue.into_raw_degrees(), c.whiteness, c.blackness]);
ser_color!(hsluv, "Hsluv", "Hsluv", HsluvC, [hue, saturation, l], hue: Some(0), premul: no,
    build: |v| HsluvC::<T>::new(sc::<T>(v[0]), sc::<T>(v[1]), sc::<T>(v[2])), comps: |c| [c.hue.into_raw_degrees(), c.saturation, c.l]);
ser_color!(lch, "Lch", "Lch", LchC, [l, chroma, hue], hue: Some(2), premul: no,
    build: |v| LchC::<T>::new(sc::<T>(v[0]), sc::<T>(v[1]), sc::<T>(v[2])), comps: |c| [c.l, c.chroma, c.hue.into_raw_degrees()]);
ser_color!(lchuv, "Lchuv", "Lchuv", LchuvC, [l, chroma, hue], hue: Some(2), premul: no,
    build: |v| LchuvC::<T>::new(sc::<T>(v[0]), sc::<T>(v[1]), sc::<T>(v[2])), comps: |c| [c.l, c.chroma, c.hue.into_raw_degrees()]);
ser_color!(oklch, "Oklch", "Oklch", OklchC, [l, chroma, hue], hue: Some(2), premul: no,
    build: |v| OklchC::<T>::new(sc::<T>(v[0]), sc::<T>(v[1]), sc::<T>(v[2])), comps: |c| [c.l, c.chroma, c.hue.into_raw_degrees()]);
ser_color!(okhsl, "Okhsl", "Okhsl", OkhslC, [hue, saturation, lightness], hue: Some(0), premul: no,
    build: |v| OkhslC::<T>::new(sc::<T>(v[0]), sc::<T>(v[1]), sc::<T>(v[2])), comps: |c| [c.hue.into_raw_degrees(), c.saturation, c.lightness]);
ser_color!(okhsv, "Okhsv", "Okhsv", OkhsvC, [hue, saturation, value], hue: Some(0), premul: no,
    build: |v| OkhsvC::<T>::new(sc::<T>(v[0]), sc::<T>(v[1]), sc::<T>(v[2])), comps: |c| [c.hue.into_raw_degrees(), c.saturation, c.value]);
ser_color!(okhwb, "Okhwb", "Okhwb", OkhwbC, [hue, whiteness, blackness], hue: Some(0), premul: no,
    build: |v| OkhwbC::<T>::new(sc::<T>(v[0]), sc::<T>(v[1]), sc::<T>(v[2])), comps: |c| [c.hue.into_raw_degrees(), c.whiteness, c.blackness]);
ser_color!(cam16ucsjmh, "Cam16UcsJmh", "Cam16UcsJmh", Cam16UcsJmhC, [lightness, colorfulness, hue], hue: Some(2), premul: no,
    build: |v| Cam16UcsJmhC::<T>::new(sc::<T>(v[0]), sc::<T>(v[1]), sc::<T>(v[2])), comps: |c| [c.lightness, c.colorfulness, c.hue.into_raw_degrees()]);

ser_color_uint!(rgb_uint, "Rgb", "Rgb", RgbC, [red, green, blue],
    build: |v| RgbC::<T>::new(sc::<T>(v[0]), sc::<T>(v[1]), sc::<T>(v[2])), comps: |c| [c.red, c.green, c.blue]);
ser_color_uint!(luma_uint, "Luma", "Luma", LumaC, [luma],
    build: |v| LumaC::<T>::new(sc::<T>(v[0])), comps: |c| [c.luma]);

// ---- hues
macro_rules! ser_hue {
    ($m:ident, $name:literal, $h:ident) => {
        pub mod $m {
            use super::*;
            impl Case for $h<f32> {
                fn build(v: &[f64]) -> Self { $h::new(v[0] as f32) }
                fn comps(&self) -> Vec<u64> { vec![(self.into_raw_degrees() as f64).to_bits()] }
            }
            impl Case for $h<f64> {
                fn build(v: &[f64]) -> Self { $h::new(v[0]) }
                fn comps(&self) -> Vec<u64> { vec![self.into_raw_degrees().to_bits()] }
            }
            pub static F32: CaseDesc = CaseDesc {
                name: concat!($name, "<f32>"), color: $name, wrapper: Wrapper::None, scalar: "f32", alpha_scalar: None, shape: Shape::Hue,
                ser_name: $name, fields: &[], hue_slot: Some(0), skip_zero_slot: None, nvals: 1, ops: ops::<$h<f32>>(), opt: None, arr: None, inner: None,
            };
            pub static F64: CaseDesc = CaseDesc {
                name: concat!($name, "<f64>"), color: $name, wrapper: Wrapper::None, scalar: "f64", alpha_scalar: None, shape: Shape::Hue,
                ser_name: $name, fields: &[], hue_slot: Some(0), skip_zero_slot: None, nvals: 1, ops: ops::<$h<f64>>(), opt: None, arr: None, inner: None,
            };
        }
    };
}
ser_hue!(rgbhue, "RgbHue", RgbHue);
ser_hue!(labhue, "LabHue", LabHue);
ser_hue!(luvhue, "LuvHue", LuvHue);
ser_hue!(oklabhue, "OklabHue", OklabHue);
ser_hue!(cam16hue, "Cam16Hue", Cam16Hue);

// ---- user-defined colors of every serde shape, wrapped in Alpha
pub mod user {
    use super::*;
    use core::marker::PhantomData;

    #[derive(Serialize, Deserialize, PartialEq, Debug, Clone, Copy)]
    pub struct UnitColor;

    #[derive(Serialize, Deserialize, PartialEq, Debug, Clone, Copy)]
    pub struct NewtypeColor(pub f32);

    #[derive(Serialize, Deserialize, PartialEq, Debug, Clone, Copy)]
    pub struct TupleColor(pub f32, pub f32, pub f32);

    /// Named fields, a skipped type-level marker and a renamed field, like palette's own colors.
    #[derive(Serialize, Deserialize, PartialEq, Debug, Clone, Copy)]
    pub struct NamedColor<M> {
        pub cyan: f32,
        #[serde(rename = "magenta")]
        pub m: f32,
        pub yellow: f32,
        #[serde(skip)]
        pub meta: PhantomData<M>,
    }
    #[derive(PartialEq, Debug, Clone, Copy)]
    pub struct Marker;

    /// A tuple struct without fields (`serde_various_types` in palette wraps one in `Alpha`).
    #[derive(Serialize, Deserialize, PartialEq, Debug, Clone, Copy)]
    pub struct UnitTuple();

    /// Three components written with `serialize_seq(Some(3))` and read back with `deserialize_seq` by a
    /// visitor that takes exactly three elements (so that a trailing alpha is left for the adapter).
    #[derive(PartialEq, Debug, Clone, Copy)]
    pub struct SeqColor(pub [f32; 3]);

    impl Serialize for SeqColor {
        fn serialize<S: serde::Serializer>(&self, serializer: S) -> Result<S::Ok, S::Error> {
            use serde::ser::SerializeSeq;
            let mut seq = serializer.serialize_seq(Some(3))?;
            for x in &self.0 {
                seq.serialize_element(x)?;
            }
            seq.end()
        }
    }
    impl<'de> Deserialize<'de> for SeqColor {
        fn deserialize<D: serde::Deserializer<'de>>(deserializer: D) -> Result<Self, D::Error> {
            struct V;
            impl<'de> serde::de::Visitor<'de> for V {
                type Value = SeqColor;
                fn expecting(&self, f: &mut core::fmt::Formatter) -> core::fmt::Result {
                    write!(f, "a sequence of three numbers")
                }
                fn visit_seq<A: serde::de::SeqAccess<'de>>(self, mut seq: A) -> Result<SeqColor, A::Error> {
                    let mut out = [0.0f32; 3];
                    for (i, slot) in out.iter_mut().enumerate() {
                        *slot = seq.next_element()?.ok_or_else(|| serde::de::Error::invalid_length(i, &self))?;
                    }
                    Ok(SeqColor(out))
                }
            }
            deserializer.deserialize_seq(V)
        }
    }
    impl Case for SeqColor {
        fn build(v: &[f64]) -> Self { SeqColor([v[0] as f32, v[1] as f32, v[2] as f32]) }
        fn comps(&self) -> Vec<u64> { self.0.iter().map(|x| (*x as f64).to_bits()).collect() }
    }

    /// The same, announcing no length (`serialize_seq(None)`): the `None` arm of the adapters' `len.map(|l| l + 1)`.
    #[derive(PartialEq, Debug, Clone, Copy)]
    pub struct SeqColorNoLen(pub [f32; 3]);
    impl Serialize for SeqColorNoLen {
        fn serialize<S: serde::Serializer>(&self, serializer: S) -> Result<S::Ok, S::Error> {
            use serde::ser::SerializeSeq;
            let mut seq = serializer.serialize_seq(None)?;
            for x in &self.0 {
                seq.serialize_element(x)?;
            }
            seq.end()
        }
    }
    impl<'de> Deserialize<'de> for SeqColorNoLen {
        fn deserialize<D: serde::Deserializer<'de>>(deserializer: D) -> Result<Self, D::Error> {
            SeqColor::deserialize(deserializer).map(|c| SeqColorNoLen(c.0))
        }
    }
    impl Case for SeqColorNoLen {
        fn build(v: &[f64]) -> Self { SeqColorNoLen([v[0] as f32, v[1] as f32, v[2] as f32]) }
        fn comps(&self) -> Vec<u64> { self.0.iter().map(|x| (*x as f64).to_bits()).collect() }
    }

    /// The same through `Serializer::collect_seq`, the provided method that `Vec`, slices and the std collections
    /// serialize themselves with (its default goes through `serialize_seq` + `end`, where the adapter appends alpha).
    #[derive(PartialEq, Debug, Clone, Copy)]
    pub struct SeqColorCollected(pub [f32; 3]);
    impl Serialize for SeqColorCollected {
        fn serialize<S: serde::Serializer>(&self, serializer: S) -> Result<S::Ok, S::Error> {
            serializer.collect_seq(self.0.iter())
        }
    }
    impl<'de> Deserialize<'de> for SeqColorCollected {
        fn deserialize<D: serde::Deserializer<'de>>(deserializer: D) -> Result<Self, D::Error> {
            SeqColor::deserialize(deserializer).map(|c| SeqColorCollected(c.0))
        }
    }
    impl Case for SeqColorCollected {
        fn build(v: &[f64]) -> Self { SeqColorCollected([v[0] as f32, v[1] as f32, v[2] as f32]) }
        fn comps(&self) -> Vec<u64> { self.0.iter().map(|x| (*x as f64).to_bits()).collect() }
    }

    /// Named fields, one of them left out of the output when it is zero: the derived impl then calls
    /// `SerializeStruct::skip_field`, which the alpha adapter has to forward.
    #[derive(Serialize, Deserialize, PartialEq, Debug, Clone, Copy)]
    pub struct SkipIfColor {
        pub first: f32,
        #[serde(skip_serializing_if = "is_zero", default)]
        pub second: f32,
        pub third: f32,
    }
    fn is_zero(x: &f32) -> bool {
        *x == 0.0
    }
    impl Case for SkipIfColor {
        fn build(v: &[f64]) -> Self { SkipIfColor { first: v[0] as f32, second: v[1] as f32, third: v[2] as f32 } }
        fn comps(&self) -> Vec<u64> { vec![(self.first as f64).to_bits(), (self.second as f64).to_bits(), (self.third as f64).to_bits()] }
    }

    impl Case for () {
        fn build(_v: &[f64]) -> Self {}
        fn comps(&self) -> Vec<u64> { vec![] }
    }
    impl Case for UnitTuple {
        fn build(_v: &[f64]) -> Self { UnitTuple() }
        fn comps(&self) -> Vec<u64> { vec![] }
    }
    impl Case for (f32, f32) {
        fn build(v: &[f64]) -> Self { (v[0] as f32, v[1] as f32) }
        fn comps(&self) -> Vec<u64> { vec![(self.0 as f64).to_bits(), (self.1 as f64).to_bits()] }
    }

    impl Case for UnitColor {
        fn build(_v: &[f64]) -> Self { UnitColor }
        fn comps(&self) -> Vec<u64> { vec![] }
    }
    impl Case for NewtypeColor {
        fn build(v: &[f64]) -> Self { NewtypeColor(v[0] as f32) }
        fn comps(&self) -> Vec<u64> { vec![(self.0 as f64).to_bits()] }
    }
    impl Case for TupleColor {
        fn build(v: &[f64]) -> Self { TupleColor(v[0] as f32, v[1] as f32, v[2] as f32) }
        fn comps(&self) -> Vec<u64> { vec![(self.0 as f64).to_bits(), (self.1 as f64).to_bits(), (self.2 as f64).to_bits()] }
    }
    impl Case for NamedColor<Marker> {
        fn build(v: &[f64]) -> Self { NamedColor { cyan: v[0] as f32, m: v[1] as f32, yellow: v[2] as f32, meta: PhantomData } }
        fn comps(&self) -> Vec<u64> { vec![(self.cyan as f64).to_bits(), (self.m as f64).to_bits(), (self.yellow as f64).to_bits()] }
    }

    macro_rules! alpha_of {
        ($t:ty, $n:expr) => {
            impl Case for Alpha<$t, f32> {
                fn build(v: &[f64]) -> Self { Alpha { color: <$t as Case>::build(v), alpha: v[$n] as f32 } }
                fn comps(&self) -> Vec<u64> { let mut c = self.color.comps(); c.push((self.alpha as f64).to_bits()); c }
            }
        };
    }
    alpha_of!(UnitColor, 0);
    alpha_of!(NewtypeColor, 1);
    alpha_of!(TupleColor, 3);
    alpha_of!(NamedColor<Marker>, 3);
    alpha_of!((), 0);
    alpha_of!(UnitTuple, 0);
    alpha_of!((f32, f32), 2);
    alpha_of!(SeqColor, 3);
    alpha_of!(SeqColorNoLen, 3);
    alpha_of!(SeqColorCollected, 3);
    alpha_of!(SkipIfColor, 3);

    macro_rules! user_desc {
        (@skip) => { None };
        (@skip $s:expr) => { Some($s) };
        ($plain:ident, $alpha:ident, $t:ty, $name:literal, $sername:literal, $shape:expr, $fields:expr, $n:expr $(, skip: $skip:expr)?) => {
            pub static $plain: CaseDesc = CaseDesc {
                name: $name, color: $name, wrapper: Wrapper::None, scalar: "f32", alpha_scalar: None, shape: $shape, ser_name: $sername,
                fields: $fields, hue_slot: None, skip_zero_slot: user_desc!(@skip $($skip)?), nvals: $n, ops: ops::<$t>(), opt: None, arr: None, inner: None,
            };
            pub static $alpha: CaseDesc = CaseDesc {
                name: concat!("Alpha<", $name, ">"), color: $name, wrapper: Wrapper::Alpha, scalar: "f32", alpha_scalar: None, shape: $shape, ser_name: $sername,
                fields: $fields, hue_slot: None, skip_zero_slot: user_desc!(@skip $($skip)?), nvals: $n + 1, ops: ops::<Alpha<$t, f32>>(),
                opt: Some(opt_ops_alpha!($t, f32)),
                arr: None, inner: Some($name),
            };
        };
    }
    user_desc!(UNIT, UNIT_A, UnitColor, "UnitColor", "UnitColor", Shape::Unit, &[], 0);
    user_desc!(NEWTYPE, NEWTYPE_A, NewtypeColor, "NewtypeColor", "NewtypeColor", Shape::Newtype, &[], 1);
    user_desc!(TUPLE, TUPLE_A, TupleColor, "TupleColor", "TupleColor", Shape::TupleStruct, &[], 3);
    user_desc!(NAMED, NAMED_A, NamedColor<Marker>, "NamedColor", "NamedColor", Shape::Struct, &["cyan", "magenta", "yellow"], 3);
    user_desc!(UNITTYPE, UNITTYPE_A, (), "()", "", Shape::UnitType, &[], 0);
    user_desc!(UNITTUPLE, UNITTUPLE_A, UnitTuple, "UnitTuple", "UnitTuple", Shape::TupleStruct, &[], 0);
    user_desc!(PAIR, PAIR_A, (f32, f32), "(f32,f32)", "", Shape::Tuple, &[], 2);
    user_desc!(SEQ, SEQ_A, SeqColor, "SeqColor", "", Shape::Seq, &[], 3);
    user_desc!(SEQNL, SEQNL_A, SeqColorNoLen, "SeqColorNoLen", "", Shape::Seq, &[], 3);
    user_desc!(SEQCOL, SEQCOL_A, SeqColorCollected, "SeqColorCollected", "", Shape::Seq, &[], 3);
    user_desc!(SKIPIF, SKIPIF_A, SkipIfColor, "SkipIfColor", "SkipIfColor", Shape::Struct, &["first", "second", "third"], 3, skip: 1);
}

// ---- alpha of another scalar type than the color's components
pub mod mixed {
    use super::*;
    use crate::types::{HsvC, RgbC};

    macro_rules! mixed_case {
        ($id:ident, $name:literal, $col:ty, $ct:literal, $at:ty, $atn:literal, $sername:literal, $fields:expr, $hue:expr, $inner:literal) => {
            impl Case for Alpha<$col, $at> {
                fn build(v: &[f64]) -> Self { Alpha { color: <$col as Case>::build(v), alpha: sc::<$at>(v[3]) } }
                fn comps(&self) -> Vec<u64> { let mut c = self.color.comps(); c.push((self.alpha as f64).to_bits()); c }
            }
            pub static $id: CaseDesc = CaseDesc {
                name: $name, color: $sername, wrapper: Wrapper::Alpha, scalar: $ct, alpha_scalar: Some($atn), shape: Shape::Struct,
                ser_name: $sername, fields: $fields, hue_slot: $hue, skip_zero_slot: None, nvals: 4,
                ops: ops::<Alpha<$col, $at>>(),
                opt: Some(opt_ops_alpha!($col, $at)),
                arr: None,
                inner: Some($inner),
            };
        };
    }
    mixed_case!(RGB_F32_U8, "Alpha<Rgb<f32>,u8>", RgbC<f32>, "f32", u8, "u8", "Rgb", &["red", "green", "blue"], None, "Rgb<f32>");
    mixed_case!(RGB_U8_F32, "Alpha<Rgb<u8>,f32>", RgbC<u8>, "u8", f32, "f32", "Rgb", &["red", "green", "blue"], None, "Rgb<u8>");
    mixed_case!(HSV_F64_U16, "Alpha<Hsv<f64>,u16>", HsvC<f64>, "f64", u16, "u16", "Hsv", &["hue", "saturation", "value"], Some(0), "Hsv<f64>");
    mixed_case!(RGB_F64_F32, "Alpha<Rgb<f64>,f32>", RgbC<f64>, "f64", f32, "f32", "Rgb", &["red", "green", "blue"], None, "Rgb<f64>");
}

// ---- packed colors through as_uint
pub mod packed {
    use palette::cast::{self, Packed};
    use palette::rgb::channels;
    use palette::Srgba;
    use crate::tok::{Peer, Rec, Replay, Presentation, SimError, Tok};

    pub struct PackedDesc {
        pub name: &'static str,
        /// how many of the four plan bytes this form carries
        pub used: usize,
        /// as_uint into the recording peer: (token, the integer `cast::into_uint` gives)
        pub record: fn(&[u8; 4], &Peer) -> Result<(Tok, u64), SimError>,
        /// as_uint round trip through the replaying peer: the unpacked channels
        pub replay: fn(&Tok, &Presentation, &Peer) -> Result<[u8; 4], SimError>,
        pub json: fn(&[u8; 4]) -> Result<(String, [u8; 4]), String>,
    }

    macro_rules! packed_case {
        ($id:ident, $name:literal, $order:ty) => {
            pub static $id: PackedDesc = PackedDesc {
                name: $name,
                used: 4,
                record: |c, peer| {
                    let p: Packed<$order, u32> = Srgba::new(c[0], c[1], c[2], c[3]).into();
                    let t = palette::serde::serialize_as_uint(&p, Rec { peer })?;
                    Ok((t, cast::into_uint(p) as u64))
                },
                replay: |tok, pres, peer| {
                    let p: Packed<$order, u32> = palette::serde::deserialize_as_uint(Replay { tok, pres, peer, top: false })?;
                    let c: Srgba<u8> = p.into();
                    Ok([c.red, c.green, c.blue, c.alpha])
                },
                json: |c| {
                    let p: Packed<$order, u32> = Srgba::new(c[0], c[1], c[2], c[3]).into();
                    let mut out = Vec::new();
                    palette::serde::serialize_as_uint(&p, &mut serde_json::Serializer::new(&mut out)).map_err(|e| e.to_string())?;
                    let text = String::from_utf8(out).map_err(|e| e.to_string())?;
                    let mut de = serde_json::Deserializer::from_str(&text);
                    let q: Packed<$order, u32> = palette::serde::deserialize_as_uint(&mut de).map_err(|e| e.to_string())?;
                    let c2: Srgba<u8> = q.into();
                    Ok((text, [c2.red, c2.green, c2.blue, c2.alpha]))
                },
            };
        };
    }
    packed_case!(RGBA, "PackedRgba", channels::Rgba);
    packed_case!(ARGB, "PackedArgb", channels::Argb);
    packed_case!(BGRA, "PackedBgra", channels::Bgra);
    packed_case!(ABGR, "PackedAbgr", channels::Abgr);

    // the other types with an unsigned-integer form: luma with alpha packed into u16 in both orders, and
    // integer luma of every width a token can carry (the helpers are generic over `UintCast`)
    macro_rules! uint_case {
        ($id:ident, $name:literal, $used:literal, $ty:ty, |$c:ident| $build:expr, |$p:ident| $unbuild:expr) => {
            pub static $id: PackedDesc = PackedDesc {
                name: $name,
                used: $used,
                record: |$c, peer| {
                    let p: $ty = $build;
                    let t = palette::serde::serialize_as_uint(&p, Rec { peer })?;
                    Ok((t, cast::into_uint(p) as u64))
                },
                replay: |tok, pres, peer| {
                    let $p: $ty = palette::serde::deserialize_as_uint(Replay { tok, pres, peer, top: false })?;
                    $unbuild
                },
                json: |$c| {
                    let p: $ty = $build;
                    let mut out = Vec::new();
                    palette::serde::serialize_as_uint(&p, &mut serde_json::Serializer::new(&mut out)).map_err(|e| e.to_string())?;
                    let text = String::from_utf8(out).map_err(|e| e.to_string())?;
                    let mut de = serde_json::Deserializer::from_str(&text);
                    let $p: $ty = palette::serde::deserialize_as_uint(&mut de).map_err(|e| e.to_string())?;
                    let back: Result<[u8; 4], SimError> = $unbuild;
                    Ok((text, back.map_err(|e| e.0)?))
                },
            };
        };
    }
    use palette::luma::channels::{Al, La};
    use palette::{SrgbLuma, SrgbLumaa};
    fn unpack_la<O>(p: Packed<O, u16>) -> Result<[u8; 4], SimError>
    where
        SrgbLumaa<u8>: From<Packed<O, u16>>,
    {
        let c: SrgbLumaa<u8> = p.into();
        Ok([c.luma, c.alpha, 0, 0])
    }
    uint_case!(LA, "PackedLumaa(La)", 2, Packed<La, u16>, |c| SrgbLumaa::new(c[0], c[1]).into(), |p| unpack_la(p));
    uint_case!(AL, "PackedLumaa(Al)", 2, Packed<Al, u16>, |c| SrgbLumaa::new(c[0], c[1]).into(), |p| unpack_la(p));
    uint_case!(LUMA8, "Luma<u8>", 1, SrgbLuma<u8>, |c| SrgbLuma::new(c[0]), |p| Ok([p.luma, 0, 0, 0]));
    uint_case!(LUMA16, "Luma<u16>", 2, SrgbLuma<u16>, |c| SrgbLuma::new(u16::from_be_bytes([c[0], c[1]])), |p| {
        let b = p.luma.to_be_bytes();
        Ok([b[0], b[1], 0, 0])
    });
    uint_case!(LUMA32, "Luma<u32>", 4, SrgbLuma<u32>, |c| SrgbLuma::new(u32::from_be_bytes(*c)), |p| Ok(p.luma.to_be_bytes()));
    uint_case!(LUMA64, "Luma<u64>", 4, SrgbLuma<u64>, |c| SrgbLuma::new(u32::from_be_bytes(*c) as u64 * 0x1_0000_0001), |p| {
        // both halves carry the same four bytes
        if (p.luma >> 32) as u32 != p.luma as u32 {
            Err(SimError(format!("Luma<u64> came back as {:#x}: the two halves differ", p.luma)))
        } else {
            Ok((p.luma as u32).to_be_bytes())
        }
    });

    pub fn all() -> Vec<&'static PackedDesc> {
        vec![&RGBA, &ARGB, &BGRA, &ABGR, &LA, &AL, &LUMA8, &LUMA16, &LUMA32, &LUMA64]
    }
}

// ---- `as_uint` on the wide unsigned-integer forms (64 and 128 bits) with every bit in use. The simulated peer's
// tokens stop at 64 bits and neither `serde_json::Value` nor ron 0.8 carries a `u128` above `u64::MAX`, so these go
// through JSON text, read back from a string or from a simulated reader.
pub mod wide {
    use crate::io::{IoPlan, SimReader};
    use palette::cast::{self, Packed};
    use palette::rgb::channels;
    use palette::SrgbLuma;

    pub struct WideDesc {
        pub name: &'static str,
        pub bits: u32,
        /// (JSON text the helper wrote, the decimal digits of what `cast::into_uint` gives, the integer that
        /// `cast::into_uint` gives for the value read back)
        pub round: fn(u128, Option<&IoPlan>) -> Result<(String, String, u128), String>,
    }

    macro_rules! wide_case {
        ($id:ident, $name:literal, $bits:literal, $ty:ty, $uint:ty) => {
            pub static $id: WideDesc = WideDesc {
                name: $name,
                bits: $bits,
                round: |v, read| {
                    let u = v as $uint;
                    let x: $ty = cast::from_uint(u);
                    let mut out = Vec::new();
                    palette::serde::serialize_as_uint(&x, &mut serde_json::Serializer::new(&mut out)).map_err(|e| format!("serialize: {e}"))?;
                    let text = String::from_utf8(out).map_err(|e| e.to_string())?;
                    let back: $ty = match read {
                        Some(plan) => {
                            let mut r = SimReader::new(text.as_bytes(), plan);
                            let mut de = serde_json::Deserializer::from_reader(&mut r);
                            palette::serde::deserialize_as_uint(&mut de).map_err(|e| format!("{text} (from a reader) -> {e}"))?
                        }
                        None => {
                            let mut de = serde_json::Deserializer::from_str(&text);
                            let b = palette::serde::deserialize_as_uint(&mut de).map_err(|e| format!("{text} -> {e}"))?;
                            de.end().map_err(|e| format!("{text} -> {e}"))?;
                            b
                        }
                    };
                    let x2: $ty = cast::from_uint(u);
                    Ok((text, format!("{}", cast::into_uint(x2)), cast::into_uint(back) as u128))
                },
            };
        };
    }
    wide_case!(LUMA128, "Luma<u128>", 128, SrgbLuma<u128>, u128);
    wide_case!(RGBA128, "Packed<Rgba, u128>", 128, Packed<channels::Rgba, u128>, u128);
    wide_case!(ABGR128, "Packed<Abgr, u128>", 128, Packed<channels::Abgr, u128>, u128);
    wide_case!(LUMA64, "Luma<u64>", 64, SrgbLuma<u64>, u64);
    wide_case!(ARGB64, "Packed<Argb, u64>", 64, Packed<channels::Argb, u64>, u64);

    pub fn all() -> Vec<&'static WideDesc> {
        vec![&LUMA128, &RGBA128, &ABGR128, &LUMA64, &ARGB64]
    }
}

// ---- the helpers the way users reach them: as `#[serde(with = ..)]` / `deserialize_with` attributes
pub mod attrs {
    use palette::rgb::{PackedArgb, PackedRgba};
    use palette::{Srgb, SrgbLuma, Srgba};
    use serde::{Deserialize, Serialize};

    /// One document that uses every helper module and function through serde attributes, with the types that
    /// implement BOTH casts (`Luma<_, u8>` is an array of one and a `u8`) next to each other.
    #[derive(Serialize, Deserialize, PartialEq, Debug, Clone)]
    pub struct Document {
        #[serde(with = "palette::serde::as_array")]
        pub rgb_array: Srgb<f32>,
        #[serde(with = "palette::serde::as_array")]
        pub rgba_array: Srgba<u8>,
        #[serde(with = "palette::serde::as_array")]
        pub luma_array: SrgbLuma<u8>,
        #[serde(with = "palette::serde::as_uint")]
        pub luma_uint: SrgbLuma<u8>,
        #[serde(with = "palette::serde::as_uint")]
        pub luma16_uint: SrgbLuma<u16>,
        #[serde(with = "palette::serde::as_uint")]
        pub rgba_uint: PackedRgba,
        #[serde(with = "palette::serde::as_uint")]
        pub argb_uint: PackedArgb,
        #[serde(serialize_with = "palette::serde::serialize_as_array", deserialize_with = "palette::serde::deserialize_as_array")]
        pub split_array: Srgb<u8>,
        #[serde(deserialize_with = "palette::serde::deserialize_with_optional_alpha")]
        pub optional: Srgba<f32>,
        pub plain: Srgba<f32>,
    }

    pub fn build(b: &[u8; 16]) -> Document {
        let f = |x: u8| x as f32 / 256.0; // exact
        Document {
            rgb_array: Srgb::new(f(b[0]), f(b[1]), f(b[2])),
            rgba_array: Srgba::new(b[3], b[4], b[5], b[6]),
            luma_array: SrgbLuma::new(b[7]),
            luma_uint: SrgbLuma::new(b[8]),
            luma16_uint: SrgbLuma::new(b[9] as u16 * 257),
            rgba_uint: Srgba::new(b[10], b[11], b[12], b[13]).into(),
            argb_uint: Srgba::new(b[13], b[12], b[11], b[10]).into(),
            split_array: Srgb::new(b[14], b[15], b[0]),
            optional: Srgba::new(f(b[1]), f(b[3]), f(b[5]), f(b[7])),
            plain: Srgba::new(f(b[2]), f(b[4]), f(b[6]), f(b[8])),
        }
    }

    /// The JSON text the document must have (arrays of components, bare unsigned integers).
    pub fn expected_json(b: &[u8; 16]) -> String {
        let f = |x: u8| serde_json::to_string(&(x as f32 / 256.0)).unwrap_or_default();
        let rgba = ((b[10] as u32) << 24) | ((b[11] as u32) << 16) | ((b[12] as u32) << 8) | b[13] as u32;
        // Srgba::new(b13, b12, b11, b10) packed as ARGB: a = b10, r = b13, g = b12, b = b11
        let argb = ((b[10] as u32) << 24) | ((b[13] as u32) << 16) | ((b[12] as u32) << 8) | b[11] as u32;
        format!(
            "{{\"rgb_array\":[{},{},{}],\"rgba_array\":[{},{},{},{}],\"luma_array\":[{}],\"luma_uint\":{},\"luma16_uint\":{},\"rgba_uint\":{},\"argb_uint\":{},\"split_array\":[{},{},{}],\"optional\":{{\"red\":{},\"green\":{},\"blue\":{},\"alpha\":{}}},\"plain\":{{\"red\":{},\"green\":{},\"blue\":{},\"alpha\":{}}}}}",
            f(b[0]), f(b[1]), f(b[2]), b[3], b[4], b[5], b[6], b[7], b[8], b[9] as u32 * 257, rgba, argb, b[14], b[15], b[0],
            f(b[1]), f(b[3]), f(b[5]), f(b[7]), f(b[2]), f(b[4]), f(b[6]), f(b[8])
        )
    }
}

pub fn all_cases() -> Vec<&'static CaseDesc> {
    let mut v: Vec<&'static CaseDesc> = Vec::new();
    macro_rules! add {
        ($($m:ident),+) => {$(
            v.push(&$m::f32_::PLAIN); v.push(&$m::f32_::ALPHA); if let Some(p) = $m::f32_::PRE.as_ref() { v.push(p); }
            v.push(&$m::f64_::PLAIN); v.push(&$m::f64_::ALPHA); if let Some(p) = $m::f64_::PRE.as_ref() { v.push(p); }
        )+};
    }
    add!(
        rgb, luma, xyz, yxy, lab, luv, oklab, lms, cam16ucsjab, hsl, hsv, hwb, hsluv, lch, lchuv, oklch, okhsl, okhsv,
        okhwb, cam16ucsjmh
    );
    v.push(&rgb_uint::u8_::PLAIN);
    v.push(&rgb_uint::u8_::ALPHA);
    v.push(&rgb_uint::u16_::PLAIN);
    v.push(&rgb_uint::u16_::ALPHA);
    v.push(&luma_uint::u8_::PLAIN);
    v.push(&luma_uint::u8_::ALPHA);
    v.push(&luma_uint::u16_::PLAIN);
    v.push(&luma_uint::u16_::ALPHA);
    for h in [&rgbhue::F32, &rgbhue::F64, &labhue::F32, &labhue::F64, &luvhue::F32, &luvhue::F64, &oklabhue::F32, &oklabhue::F64, &cam16hue::F32, &cam16hue::F64] {
        v.push(h);
    }
    for m in [&mixed::RGB_F32_U8, &mixed::RGB_U8_F32, &mixed::HSV_F64_U16, &mixed::RGB_F64_F32] {
        v.push(m);
    }
    for u in [
        &user::UNIT, &user::UNIT_A, &user::NEWTYPE, &user::NEWTYPE_A, &user::TUPLE, &user::TUPLE_A, &user::NAMED, &user::NAMED_A,
        &user::UNITTYPE, &user::UNITTYPE_A, &user::UNITTUPLE, &user::UNITTUPLE_A, &user::PAIR, &user::PAIR_A,
        &user::SEQ, &user::SEQ_A, &user::SEQNL, &user::SEQNL_A, &user::SEQCOL, &user::SEQCOL_A, &user::SKIPIF, &user::SKIPIF_A,
    ] {
        v.push(u);
    }
    v
}

#[allow(dead_code)]
fn _unused(_: &IoPlan, _: &mut dyn Read, _: &mut dyn Write) {}
