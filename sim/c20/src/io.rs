//! Simulated byte streams under the real formats: short reads and writes,
//! `EINTR`, an error or EOF at byte k, a sink that accepts nothing.

use serde::{Deserialize, Serialize};
use std::io::{self, Read, Write};

#[derive(Clone, Debug, PartialEq, Eq, Hash, Serialize, Deserialize)]
pub enum IoFault {
    None,
    /// `Err(Other)` once `k` bytes went through
    ErrorAt(u16),
    /// reader: EOF after `k` bytes; writer: `Ok(0)` (write-zero) after `k` bytes
    StopAt(u16),
}

#[derive(Clone, Debug, PartialEq, Eq, Hash, Serialize, Deserialize)]
pub struct IoPlan {
    /// cyclic schedule of chunk sizes (0 is read as 1)
    pub chunks: Vec<u8>,
    /// every n-th call returns `Interrupted` first (0: never)
    pub eintr_every: u8,
    pub fault: IoFault,
}

impl IoPlan {
    pub fn clean() -> Self {
        IoPlan { chunks: vec![255], eintr_every: 0, fault: IoFault::None }
    }
    pub fn is_clean(&self) -> bool {
        self.fault == IoFault::None
    }
}

#[derive(Default, Debug, Clone, Copy)]
pub struct IoStats {
    pub calls: u32,
    pub short: u32,
    pub eintr: u32,
    pub errors: u32,
    pub stops: u32,
}

pub struct SimReader<'a> {
    data: &'a [u8],
    pos: usize,
    plan: &'a IoPlan,
    call: usize,
    pending_eintr: bool,
    pub stats: IoStats,
    /// byte offsets at which a chunk ended (for the "boundary inside a key" probe)
    pub boundaries: Vec<usize>,
}

impl<'a> SimReader<'a> {
    pub fn new(data: &'a [u8], plan: &'a IoPlan) -> Self {
        SimReader { data, pos: 0, plan, call: 0, pending_eintr: true, stats: IoStats::default(), boundaries: Vec::new() }
    }
    fn chunk(&self) -> usize {
        if self.plan.chunks.is_empty() {
            return usize::MAX;
        }
        (self.plan.chunks[self.call % self.plan.chunks.len()] as usize).max(1)
    }
}

impl<'a> Read for SimReader<'a> {
    fn read(&mut self, buf: &mut [u8]) -> io::Result<usize> {
        self.stats.calls += 1;
        if self.plan.eintr_every > 0 && self.call % self.plan.eintr_every as usize == self.plan.eintr_every as usize - 1 && self.pending_eintr {
            self.pending_eintr = false;
            self.stats.eintr += 1;
            return Err(io::Error::new(io::ErrorKind::Interrupted, "simulated EINTR"));
        }
        self.pending_eintr = true;
        let mut limit = self.data.len();
        match self.plan.fault {
            IoFault::ErrorAt(k) => {
                if self.pos >= k as usize {
                    self.stats.errors += 1;
                    self.call += 1;
                    return Err(io::Error::new(io::ErrorKind::Other, "simulated device error"));
                }
                limit = limit.min(k as usize);
            }
            IoFault::StopAt(k) => {
                if self.pos >= k as usize && (k as usize) < self.data.len() {
                    self.stats.stops += 1;
                }
                limit = limit.min(k as usize);
            }
            IoFault::None => {}
        }
        let want = buf.len().min(self.chunk());
        let n = want.min(limit.saturating_sub(self.pos));
        if n < buf.len() && n > 0 {
            self.stats.short += 1;
        }
        buf[..n].copy_from_slice(&self.data[self.pos..self.pos + n]);
        self.pos += n;
        self.call += 1;
        if n > 0 {
            self.boundaries.push(self.pos);
        }
        Ok(n)
    }
}

pub struct SimWriter<'a> {
    pub accepted: Vec<u8>,
    plan: &'a IoPlan,
    call: usize,
    pending_eintr: bool,
    pub stats: IoStats,
    pub flushed: bool,
}

impl<'a> SimWriter<'a> {
    pub fn new(plan: &'a IoPlan) -> Self {
        SimWriter { accepted: Vec::new(), plan, call: 0, pending_eintr: true, stats: IoStats::default(), flushed: false }
    }
    fn chunk(&self) -> usize {
        if self.plan.chunks.is_empty() {
            return usize::MAX;
        }
        (self.plan.chunks[self.call % self.plan.chunks.len()] as usize).max(1)
    }
}

impl<'a> Write for SimWriter<'a> {
    fn write(&mut self, buf: &[u8]) -> io::Result<usize> {
        self.stats.calls += 1;
        if buf.is_empty() {
            return Ok(0);
        }
        if self.plan.eintr_every > 0 && self.call % self.plan.eintr_every as usize == self.plan.eintr_every as usize - 1 && self.pending_eintr {
            self.pending_eintr = false;
            self.stats.eintr += 1;
            return Err(io::Error::new(io::ErrorKind::Interrupted, "simulated EINTR"));
        }
        self.pending_eintr = true;
        let mut room = usize::MAX;
        match self.plan.fault {
            IoFault::ErrorAt(k) => {
                if self.accepted.len() >= k as usize {
                    self.stats.errors += 1;
                    self.call += 1;
                    return Err(io::Error::new(io::ErrorKind::Other, "simulated device error"));
                }
                room = k as usize - self.accepted.len();
            }
            IoFault::StopAt(k) => {
                if self.accepted.len() >= k as usize {
                    self.stats.stops += 1;
                    self.call += 1;
                    return Ok(0); // full disk, as some sinks report it
                }
                room = k as usize - self.accepted.len();
            }
            IoFault::None => {}
        }
        let n = buf.len().min(self.chunk()).min(room);
        if n < buf.len() {
            self.stats.short += 1;
        }
        self.accepted.extend_from_slice(&buf[..n]);
        self.call += 1;
        Ok(n)
    }
    fn flush(&mut self) -> io::Result<()> {
        self.flushed = true;
        Ok(())
    }
}
