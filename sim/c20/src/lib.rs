//! C20 — serialized colors deserialize to the same color in a stable shape.
//!
//! palette's hand-written `AlphaSerializer` / `AlphaDeserializer` sit between
//! the derived `Serialize`/`Deserialize` of a color and a data format. The
//! simulator owns the other party:
//!
//! * channel A, `SimFormat`: a recording serializer and a replaying
//!   deserializer that makes every choice a format is free to make (struct as
//!   map or sequence, key form, key order, size hints, alpha present or absent,
//!   an unknown key) and can fail at the k-th data-model call;
//! * channels B/C, the real `serde_json` / `ron 0.8` over simulated byte
//!   streams (short reads/writes, EINTR, error or EOF at byte k);
//! * channel D, `serde_json::Value` as an intermediary that reorders keys.

pub mod cases;
pub mod types;
pub mod io;
pub mod tok;

use cases::{all_cases, packed, CaseDesc, Outcome, RonStyle, Shape, Wrapper};
use io::{IoFault, IoPlan, SimReader, SimWriter};
use serde::{Deserialize, Serialize};
use simcore::core::{catch, Caught, Ctx, Tier, World, WorldInfo};
use simcore::ev;
use simcore::rng::Rng;
use tok::{KeyForm, Peer, Presentation, StructAs, Tok, KEY_FORMS};

#[derive(Clone, Debug, Serialize, Deserialize, Hash, PartialEq, Eq)]
pub enum Doc {
    /// exactly what palette wrote
    Serialized,
    /// a hand-written JSON object: key order, alpha position, whitespace (struct-shaped cases)
    /// `nums`: how the peer writes numbers — 0 as serde_json does, 1 whole-valued floats as integers (what
    /// JavaScript's `JSON.stringify` produces: `{"red":1,"green":0,"blue":0.5,"alpha":1}`), 2 exponent notation
    Object { order: u8, alpha_pos: u8, spaces: bool, unknown_key_at: Option<u8>, #[serde(default)] nums: u8 },
    /// the compact sequence form `[c0, c1, c2, alpha]`
    Array { spaces: bool, #[serde(default)] nums: u8 },
    /// the document lacks the alpha entry
    MissingAlpha { array: bool },
    /// the alpha key appears twice
    DuplicateAlpha,
}

#[derive(Clone, Debug, Serialize, Deserialize, Hash, PartialEq, Eq)]
pub enum Kind {
    /// channel A round trip; `ser_fail` / `de_fail`: the peer fails at that call
    Sim { pres: Presentation, ser_fail: Option<u16>, de_fail: Option<u16> },
    /// channel A, `deserialize_with_optional_alpha` / `_pre_alpha`
    SimOptional { pres: Presentation, de_fail: Option<u16> },
    /// channel A, `as_array`
    SimArray { ser_fail: Option<u16>, de_fail: Option<u16> },
    /// channel A + JSON, `as_uint` on the four packed RGBA orders
    Packed { which: u8, channels: [u8; 4], ser_fail: Option<u16>, de_fail: Option<u16> },
    /// channel B: serde_json over simulated streams
    Json { write: IoPlan, read: IoPlan, doc: Doc },
    /// channel B: the optional-alpha helpers on serde_json
    JsonOptional { doc: Doc },
    /// channel B: `as_array` on serde_json
    JsonArray,
    /// channel C: ron 0.8 over simulated streams
    Ron { style: u8, write: IoPlan, read: IoPlan },
    /// channel C: the optional-alpha helpers on ron (palette's own output, or the plain color's output when `missing`)
    RonOptional { style: u8, missing: bool },
    /// channel D
    Value,
    /// the helpers through `#[serde(with = ..)]` / `deserialize_with` attributes on a user document, JSON and RON
    Attrs { bytes: [u8; 16], without_optional_alpha: bool },
    /// the color as the payload of a user enum (`style` 0 untagged, 1 internally tagged, 2 adjacently tagged)
    /// through JSON text (`via` 0), a `serde_json::Value` (1) or RON (2): serde's buffered `Content` replay
    Enum { style: u8, via: u8 },
    /// several colors of the case's type in one document (`form`: vector, option, tuple, array, map, a user
    /// struct with other colors and scalars in between, a stream of documents ...) through JSON text (`via` 0),
    /// a `serde_json::Value` (1), RON (2) or JSON from a simulated reader (3); `second` and `third` are the
    /// values of the other positions
    Container { form: u8, via: u8, n: u8, second: Vec<u64>, third: Vec<u64>, read: IoPlan },
    /// `as_uint` on the 64- and 128-bit unsigned-integer forms with every bit in use (`hi`, `lo`: the two halves of
    /// the value), through JSON text, read back from a string or from a simulated reader
    WideUint { which: u8, hi: u64, lo: u64, read: Option<IoPlan> },
}

impl Kind {
    fn name(&self) -> &'static str {
        match self {
            Kind::Sim { .. } => "sim",
            Kind::SimOptional { .. } => "sim-optional-alpha",
            Kind::SimArray { .. } => "sim-as_array",
            Kind::Packed { .. } => "as_uint",
            Kind::Json { .. } => "json",
            Kind::JsonOptional { .. } => "json-optional-alpha",
            Kind::JsonArray => "json-as_array",
            Kind::Ron { .. } => "ron",
            Kind::RonOptional { .. } => "ron-optional-alpha",
            Kind::Value => "json-value",
            Kind::Attrs { .. } => "helpers-as-attributes",
            Kind::Enum { .. } => "enum-payload",
            Kind::Container { .. } => "container",
            Kind::WideUint { .. } => "as_uint-wide",
        }
    }
}

#[derive(Clone, Debug, Serialize, Deserialize, Hash, PartialEq, Eq)]
pub struct Plan {
    pub case: String,
    /// component values as f64 bit patterns (exact); text channels only use exactly printable ones
    pub vals: Vec<u64>,
    pub vals_text: String,
    /// the values include arbitrary finite bit patterns (channel A only)
    #[serde(default)]
    pub raw: bool,
    /// the hue slot carries an arbitrary raw angle (negative, tiny negative, beyond one turn): the round trip
    /// is then judged with the type's own `PartialEq` on the hue (bitwise on the other components)
    #[serde(default)]
    pub raw_hue: bool,
    pub kind: Kind,
}

thread_local! {
    /// set per executed plan: judge the hue slot with `PartialEq` only (see `Plan::raw_hue`)
    static RAW_HUE: std::cell::Cell<bool> = const { std::cell::Cell::new(false) };
}

/// Raw hue angles whose decimal form is exact (dyadic rationals), so that no format's float parser can be
/// blamed: tiny negatives (where wrapping into [0, 360) rounds to 360 exactly), negatives, whole turns, more
/// than one turn, just below a turn.
const RAW_HUES: [f64; 14] = [
    -9.5367431640625e-7, // -2^-20
    -5.9604644775390625e-8, // -2^-24
    -0.5,
    -90.0,
    -360.0,
    -450.25,
    360.0,
    540.0,
    720.25,
    1048576.0,
    359.999969482421875, // 360 - 2^-15
    180.5,
    270.0,
    -180.0,
];

pub struct C20 {
    cases: Vec<&'static CaseDesc>,
    /// the enumerated `peer: error@call k` sweep
    sweep: Vec<(usize, SweepItem)>,
}

#[derive(Clone, Debug)]
enum SweepItem {
    Ser { k: u16 },
    De { pres: Presentation, k: u16 },
    Optional { pres: Presentation, k: u16 },
}

fn sweep_presentations() -> Vec<Presentation> {
    let mut v = Vec::new();
    for kf in KEY_FORMS {
        for (order, alpha_pos) in [(0u8, 255u8), (1, 0), (2, 1)] {
            v.push(Presentation { struct_as: StructAs::Map, key_form: kf, alpha_pos, order, size_hint: alpha_pos != 0, alpha_present: true, unknown_key_at: None, strict_option: order == 2, unknown_key_kind: 0, honour_requested_len: false, limit_to_declared_fields: false, binary: false });
        }
    }
    for hint in [true, false] {
        v.push(Presentation { struct_as: StructAs::Seq, key_form: KeyForm::BorrowedStr, alpha_pos: 255, order: 0, size_hint: hint, alpha_present: true, unknown_key_at: None, strict_option: hint, unknown_key_kind: 0, honour_requested_len: !hint, limit_to_declared_fields: false, binary: false });
    }
    v
}

impl C20 {
    pub fn new() -> Self {
        let cases = all_cases();
        let mut sweep = Vec::new();
        let press = sweep_presentations();
        for (ci, c) in cases.iter().enumerate() {
            // "every k": the number of data-model calls of the fault-free conversation is MEASURED (one dry run
            // per case and presentation, under `catch`), so a conversation that grows by a call is still swept
            // to its end; two more positions are added, which must not fire (the last `de` loop records that)
            let simple: Vec<f64> = (0..c.nvals.max(1) + 1).map(|j| if scalar_of(c, j).starts_with('u') { (j + 1) as f64 } else { 0.25 * (j + 1) as f64 }).collect();
            let dry = match catch(|| {
                let peer = Peer::new(None);
                let tok = (c.ops.record)(&simple, &peer).ok();
                (tok, peer.calls.get())
            }) {
                Caught::Ok(x) => x,
                _ => (None, 12),
            };
            let ser_calls = dry.1.min(60) as u16;
            for k in 0..ser_calls + 2 {
                sweep.push((ci, SweepItem::Ser { k }));
            }
            for p in press.iter() {
                let index_keys = matches!(p.key_form, KeyForm::U64Index | KeyForm::U8Index | KeyForm::U32Index);
                if c.shape != Shape::Struct && (p.struct_as == StructAs::Map && (p.order != 0 || p.key_form != KeyForm::BorrowedStr)) {
                    continue; // non-struct shapes have no keys to vary
                }
                let _ = index_keys;
                let de_calls = match (&dry.0, catch(|| {
                    let peer = Peer::new(None);
                    if let Some(tok) = &dry.0 {
                        let _ = (c.ops.replay)(tok, p, &peer, &simple);
                    }
                    peer.calls.get()
                })) {
                    (Some(_), Caught::Ok(n)) => n.min(80) as u16,
                    _ => 20,
                };
                for k in 0..de_calls + 2 {
                    sweep.push((ci, SweepItem::De { pres: p.clone(), k }));
                    if c.opt.is_some() && k < 16 && (p.order == 0) {
                        sweep.push((ci, SweepItem::Optional { pres: Presentation { alpha_present: k % 2 == 0, ..p.clone() }, k }));
                    }
                }
            }
        }
        C20 { cases, sweep }
    }
    fn case(&self, name: &str) -> Option<&'static CaseDesc> {
        self.cases.iter().copied().find(|c| c.name == name)
    }
}

// ------------------------------------------------------------------ values

/// Scalar type of value slot `slot`: the alpha slot (the last one of a wrapped color) may have its own.
fn scalar_of(c: &CaseDesc, slot: usize) -> &'static str {
    match c.alpha_scalar {
        Some(a) if c.wrapper != Wrapper::None && slot + 1 == c.nvals => a,
        _ => c.scalar,
    }
}

fn text_safe_value(rng: &mut Rng, c: &CaseDesc, slot: usize) -> f64 {
    match scalar_of(c, slot) {
        "u8" => rng.below(256) as f64,
        "u16" => match rng.below(4) {
            0 => 65535.0,
            1 => 0.0,
            _ => rng.below(65536) as f64,
        },
        _ => {
            if c.hue_slot == Some(slot) {
                // hues in [0, 180]: a fixed point of both normal forms
                return rng.below(180 * 64 + 1) as f64 / 64.0;
            }
            match rng.below(12) {
                0 => 0.0,
                1 => 1.0,
                2 => 0.5,
                3 => 100.0,
                4 => -128.0,
                5 => (rng.below(1 << 20) as f64) - 524288.0, // integers
                6 => rng.below(1 << 20) as f64 / 1048576.0,  // 20-bit dyadic fractions
                _ => (rng.below(8193) as f64 - 4096.0) / 1024.0,
            }
        }
    }
}

fn raw_value(rng: &mut Rng, c: &CaseDesc, slot: usize) -> f64 {
    let sc = scalar_of(c, slot);
    if sc == "u8" || sc == "u16" || c.hue_slot == Some(slot) {
        return text_safe_value(rng, c, slot);
    }
    let f32ish = sc == "f32";
    match rng.below(10) {
        0 => {
            if f32ish {
                f32::MAX as f64
            } else {
                f64::MAX
            }
        }
        1 => {
            if f32ish {
                f32::MIN as f64
            } else {
                f64::MIN
            }
        }
        2 => {
            if f32ish {
                f32::from_bits(1 + rng.below(1000) as u32) as f64
            } else {
                f64::from_bits(1 + rng.below(1000))
            }
        } // subnormals
        3 => {
            if f32ish {
                f32::MIN_POSITIVE as f64
            } else {
                f64::MIN_POSITIVE
            }
        }
        4..=6 => {
            // arbitrary finite bit pattern with a full mantissa
            if f32ish {
                let mut b = rng.next_u32();
                if (b >> 23) & 0xff == 0xff {
                    b &= !(1 << 30);
                }
                f32::from_bits(b) as f64
            } else {
                let mut b = rng.next_u64();
                if (b >> 52) & 0x7ff == 0x7ff {
                    b &= !(1 << 62);
                }
                f64::from_bits(b)
            }
        }
        _ => text_safe_value(rng, c, slot),
    }
}

fn gen_vals(rng: &mut Rng, c: &CaseDesc, raw: bool) -> Vec<f64> {
    // user shapes mix f32 and f64 fields; every value used is exact in f32
    let mut v: Vec<f64> = (0..c.nvals.max(1)).map(|j| if raw { raw_value(rng, c, j) } else { text_safe_value(rng, c, j) }).collect();
    if let Some(j) = c.skip_zero_slot {
        if rng.chance(1, 2) {
            v[j] = 0.0;
        }
    }
    v
}

fn round_to_scalar(c: &CaseDesc, slot: usize, v: f64) -> f64 {
    match scalar_of(c, slot) {
        "f32" => v as f32 as f64,
        _ => v,
    }
}

fn fmt_scalar(c: &CaseDesc, slot: usize, v: f64) -> String {
    match scalar_of(c, slot) {
        "u8" | "u16" => format!("{}", v as u64),
        "f32" => serde_json::to_string(&(v as f32)).unwrap_or_default(),
        _ => serde_json::to_string(&v).unwrap_or_default(),
    }
}

fn gen_io(rng: &mut Rng, faulty: bool, len_hint: usize) -> IoPlan {
    let chunks: Vec<u8> = match rng.below(6) {
        0 => vec![1],
        1 => vec![255],
        2 => vec![2, 1, 3],
        3 => (0..1 + rng.below(5)).map(|_| 1 + rng.below(7) as u8).collect(),
        _ => (0..1 + rng.below(4)).map(|_| 1 + rng.below(40) as u8).collect(),
    };
    let eintr_every = if rng.chance(1, 3) { 1 + rng.below(4) as u8 } else { 0 };
    let fault = if faulty {
        let k = rng.below(len_hint as u64 + 2) as u16;
        if rng.chance(1, 2) {
            IoFault::ErrorAt(k)
        } else {
            IoFault::StopAt(k)
        }
    } else {
        IoFault::None
    };
    IoPlan { chunks, eintr_every, fault }
}

fn gen_presentation(rng: &mut Rng, c: &CaseDesc) -> Presentation {
    let has_alpha = c.wrapper != Wrapper::None;
    Presentation {
        struct_as: if rng.chance(3, 4) { StructAs::Map } else { StructAs::Seq },
        key_form: *rng.pick(&KEY_FORMS),
        alpha_pos: if rng.chance(1, 3) { 255 } else { rng.below(5) as u8 },
        order: rng.below(5) as u8,
        size_hint: rng.chance(1, 2),
        alpha_present: !has_alpha || rng.chance(5, 6),
        unknown_key_at: if rng.chance(1, 6) { Some(rng.below(5) as u8) } else { None },
        strict_option: rng.chance(1, 2),
        unknown_key_kind: if rng.chance(1, 2) { 0 } else { 1 + rng.below(5) as u8 },
        honour_requested_len: rng.chance(1, 4),
        limit_to_declared_fields: false,
        binary: rng.chance(1, 8),
    }
}

fn vals_text(v: &[f64]) -> String {
    v.iter().map(|x| format!("{x:?}")).collect::<Vec<_>>().join(", ")
}

impl World for C20 {
    type Plan = Plan;

    fn id(&self) -> &'static str {
        "C20"
    }

    fn enumerated(&self, _tier: Tier) -> u64 {
        self.sweep.len() as u64
    }

    fn random_runs(&self, tier: Tier) -> u64 {
        match tier {
            Tier::Quick => 4_000_000,
            Tier::Thorough => 60_000_000,
        }
    }

    fn plan(&self, index: u64, rng: &mut Rng, tier: Tier) -> Plan {
        if index < self.enumerated(tier) {
            let (ci, item) = &self.sweep[index as usize];
            let c = self.cases[*ci];
            let vals = gen_vals(rng, c, false);
            let kind = match item {
                SweepItem::Ser { k } => Kind::Sim { pres: Presentation::plain(), ser_fail: Some(*k), de_fail: None },
                SweepItem::De { pres, k } => Kind::Sim { pres: pres.clone(), ser_fail: None, de_fail: Some(*k) },
                SweepItem::Optional { pres, k } => Kind::SimOptional { pres: pres.clone(), de_fail: Some(*k) },
            };
            return Plan { case: c.name.to_string(), vals_text: vals_text(&vals), vals: vals.iter().map(|v| v.to_bits()).collect(), raw: false, raw_hue: false, kind };
        }
        let c = self.cases[(index % self.cases.len() as u64) as usize];
        let faults = rng.chance(4, 10);
        let kind_pick = rng.below(29);
        let struct_like = c.shape == Shape::Struct;
        let has_alpha = c.wrapper != Wrapper::None;
        let (kind, raw) = match kind_pick {
            0..=6 => {
                let pres = gen_presentation(rng, c);
                let (sf, df) = if faults {
                    if rng.chance(1, 3) {
                        (Some(rng.below(20) as u16), None)
                    } else {
                        (None, Some(rng.below(34) as u16))
                    }
                } else {
                    (None, None)
                };
                (Kind::Sim { pres, ser_fail: sf, de_fail: df }, rng.chance(1, 2))
            }
            7 if c.opt.is_some() => {
                let mut pres = gen_presentation(rng, c);
                pres.alpha_present = rng.chance(1, 2);
                (Kind::SimOptional { pres, de_fail: if faults { Some(rng.below(20) as u16) } else { None } }, rng.chance(1, 2))
            }
            8 if c.arr.is_some() => {
                let (sf, df) = if faults { (if rng.chance(1, 2) { Some(rng.below(8) as u16) } else { None }, if rng.chance(1, 2) { Some(rng.below(8) as u16) } else { None }) } else { (None, None) };
                (Kind::SimArray { ser_fail: sf, de_fail: df }, rng.chance(1, 2))
            }
            9 => (
                Kind::Packed {
                    which: rng.below(10) as u8,
                    channels: [rng.below(256) as u8, rng.below(256) as u8, rng.below(256) as u8, *rng.pick(&[0u8, 255, 128, 1, 254])],
                    ser_fail: if faults && rng.chance(1, 2) { Some(rng.below(3) as u16) } else { None },
                    de_fail: if faults && rng.chance(1, 2) { Some(rng.below(3) as u16) } else { None },
                },
                false,
            ),
            10..=13 => {
                let doc = match rng.below(10) {
                    0..=3 => Doc::Serialized,
                    4..=6 if struct_like => Doc::Object {
                        order: rng.below(5) as u8,
                        alpha_pos: if rng.chance(1, 3) { 255 } else { rng.below(5) as u8 },
                        spaces: rng.chance(1, 2),
                        unknown_key_at: if rng.chance(1, 5) { Some(rng.below(5) as u8) } else { None },
                        nums: *rng.pick(&[0u8, 0, 1, 2]),
                    },
                    7 if c.shape != Shape::Hue && c.shape != Shape::Unit => Doc::Array { spaces: rng.chance(1, 2), nums: *rng.pick(&[0u8, 0, 1, 2]) },
                    8 if has_alpha && c.shape != Shape::Unit => Doc::MissingAlpha { array: !struct_like || rng.chance(1, 2) },
                    9 if has_alpha && struct_like => Doc::DuplicateAlpha,
                    _ => Doc::Serialized,
                };
                let len_hint = 20 + c.nvals * 18;
                let (fw, fr) = (faults && rng.chance(1, 2), faults && rng.chance(1, 2));
                (Kind::Json { write: gen_io(rng, fw, len_hint), read: gen_io(rng, fr, len_hint), doc }, false)
            }
            14 if c.opt.is_some() => {
                let doc = match rng.below(4) {
                    0 => Doc::Serialized,
                    1 if struct_like => Doc::MissingAlpha { array: false },
                    2 if c.shape != Shape::Unit => Doc::MissingAlpha { array: true },
                    _ if struct_like => Doc::Object { order: rng.below(5) as u8, alpha_pos: rng.below(5) as u8, spaces: false, unknown_key_at: None, nums: *rng.pick(&[0u8, 1, 2]) },
                    _ => Doc::Serialized,
                };
                (Kind::JsonOptional { doc }, false)
            }
            15 if c.arr.is_some() => (Kind::JsonArray, false),
            19 if c.opt.is_some() => (Kind::RonOptional { style: rng.below(3) as u8, missing: c.shape != Shape::Unit && rng.chance(1, 2) }, false),
            16..=18 => {
                let len_hint = 24 + c.nvals * 18;
                let (fw, fr) = (faults && rng.chance(1, 2), faults && rng.chance(1, 2));
                (Kind::Ron { style: rng.below(3) as u8, write: gen_io(rng, fw, len_hint), read: gen_io(rng, fr, len_hint) }, false)
            }
            21 => {
                let mut bytes = [0u8; 16];
                for b in bytes.iter_mut() {
                    *b = *rng.pick(&[0u8, 1, 127, 128, 254, 255, 17, 200, 64, 33]);
                }
                (Kind::Attrs { bytes, without_optional_alpha: rng.chance(1, 2) }, false)
            }
            22 | 23 => {
                // RON only under adjacent tagging: ron 0.8 hands newtype structs (palette's hues) to serde's buffered
                // `Content` as one-element sequences, which no hue can be read back from — a limitation between ron
                // and serde's untagged / internally tagged enums, not something palette decides
                let via = rng.below(3) as u8;
                let style = if via == 2 { 2 } else { rng.below(3) as u8 };
                // a third of the JSON plans of named-field colors: the color among other palette colors in one
                // untagged enum (style 3)
                if via != 2 && struct_like && rng.chance(1, 3) {
                    (Kind::Enum { style: 3, via }, false)
                } else {
                    (Kind::Enum { style, via }, false)
                }
            }
            24..=27 => {
                let form = rng.below(cases::CONTAINER_FORMS.len() as u64) as u8;
                // a stream of documents exists for JSON only
                let via = if form == 10 { *rng.pick(&[0u8, 3]) } else { rng.below(4) as u8 };
                let second: Vec<u64> = gen_vals(rng, c, false).iter().map(|v| v.to_bits()).collect();
                let third: Vec<u64> = gen_vals(rng, c, false).iter().map(|v| v.to_bits()).collect();
                let read = if via == 3 { gen_io(rng, false, 40 + c.nvals * 40) } else { IoPlan::clean() };
                (Kind::Container { form, via, n: rng.below(4) as u8, second, third, read }, false)
            }
            28 => {
                let word = |rng: &mut Rng| match rng.below(8) {
                    0 => 0u64,
                    1 => u64::MAX,
                    2 => 1,
                    3 => 1 << 63,
                    4 => (1 << 53) + 1,
                    _ => rng.next_u64(),
                };
                let (hi, lo) = (word(rng), word(rng));
                let read = if rng.chance(1, 2) { Some(gen_io(rng, false, 40)) } else { None };
                (Kind::WideUint { which: rng.below(5) as u8, hi, lo, read }, false)
            }
            _ => (Kind::Value, false),
        };
        let mut vals = gen_vals(rng, c, raw);
        let mut raw_hue = false;
        if let Some(h) = c.hue_slot {
            if rng.chance(1, 6) && h < vals.len() {
                raw_hue = true;
                vals[h] = *rng.pick(&RAW_HUES);
            }
        }
        Plan { case: c.name.to_string(), vals_text: vals_text(&vals), vals: vals.iter().map(|v| v.to_bits()).collect(), raw, raw_hue, kind }
    }

    fn execute(&self, plan: &Plan, ctx: &mut Ctx<'_>) {
        let Some(c) = self.case(&plan.case) else {
            ctx.fail("harness", "unknown-case", format!("unknown case {}", plan.case));
            return;
        };
        let vals: Vec<f64> = plan.vals.iter().enumerate().map(|(j, b)| round_to_scalar(c, j, f64::from_bits(*b))).collect();
        if vals.len() < c.nvals {
            ctx.fail("harness", "short-vals", format!("plan has {} values, case needs {}", vals.len(), c.nvals));
            return;
        }
        let inner = c.inner.and_then(|n| self.case(n));
        if plan.raw {
            ctx.probe("raw-bit-patterns");
        }
        if plan.raw_hue {
            ctx.probe("raw-hue-angles");
        }
        RAW_HUE.with(|r| r.set(plan.raw_hue));
        let r = catch(|| execute(c, inner, &vals, &plan.kind, ctx));
        match r {
            Caught::Ok(()) => {}
            Caught::Injected(_) => {
                ctx.fail("harness", "unexpected-injected", "injected panic in a world that injects none".into());
            }
            Caught::Foreign(msg) => {
                // the adapters' unimplemented!() arms, or anything else that panics in a conversation
                ctx.fail(
                    &format!("panic:{}", plan.kind.name()),
                    &format!("panic:{}:{}", c.name, plan.kind.name()),
                    format!("the conversation panicked: {msg}"),
                );
            }
        }
    }

    fn shrink(&self, plan: &Plan) -> Vec<Plan> {
        let mut out = Vec::new();
        let Some(c) = self.case(&plan.case) else { return out };
        // simpler values
        let simple: Vec<f64> = (0..plan.vals.len()).map(|j| if scalar_of(c, j).starts_with('u') { (j + 1) as f64 } else { 0.25 * (j + 1) as f64 }).collect();
        let simple_bits: Vec<u64> = simple.iter().map(|v| v.to_bits()).collect();
        if plan.vals != simple_bits {
            out.push(Plan { vals: simple_bits, vals_text: vals_text(&simple), raw: false, raw_hue: false, ..plan.clone() });
        }
        let with = |k: Kind| Plan { kind: k, ..plan.clone() };
        match &plan.kind {
            Kind::Sim { pres, ser_fail, de_fail } => {
                let plain = Presentation { alpha_present: pres.alpha_present, ..Presentation::plain() };
                if *pres != plain {
                    out.push(with(Kind::Sim { pres: plain.clone(), ser_fail: *ser_fail, de_fail: *de_fail }));
                    // one field of the presentation at a time
                    for p in [
                        Presentation { key_form: KeyForm::BorrowedStr, ..pres.clone() },
                        Presentation { order: 0, ..pres.clone() },
                        Presentation { alpha_pos: 255, ..pres.clone() },
                        Presentation { unknown_key_at: None, ..pres.clone() },
                        Presentation { size_hint: true, ..pres.clone() },
                        Presentation { struct_as: StructAs::Map, ..pres.clone() },
                        Presentation { strict_option: false, ..pres.clone() },
                        Presentation { unknown_key_kind: 0, ..pres.clone() },
                        Presentation { honour_requested_len: false, ..pres.clone() },
                        Presentation { binary: false, ..pres.clone() },
                    ] {
                        if p != *pres {
                            out.push(with(Kind::Sim { pres: p, ser_fail: *ser_fail, de_fail: *de_fail }));
                        }
                    }
                }
                if ser_fail.is_some() || de_fail.is_some() {
                    out.push(with(Kind::Sim { pres: pres.clone(), ser_fail: None, de_fail: None }));
                }
            }
            Kind::SimOptional { pres, de_fail } => {
                let plain = Presentation { alpha_present: pres.alpha_present, ..Presentation::plain() };
                if *pres != plain {
                    out.push(with(Kind::SimOptional { pres: plain, de_fail: *de_fail }));
                }
                if de_fail.is_some() {
                    out.push(with(Kind::SimOptional { pres: pres.clone(), de_fail: None }));
                }
            }
            Kind::Json { write, read, doc } => {
                if !write.is_clean() || write.chunks != vec![255] || write.eintr_every != 0 {
                    out.push(with(Kind::Json { write: IoPlan::clean(), read: read.clone(), doc: doc.clone() }));
                }
                if read.chunks != vec![255] || read.eintr_every != 0 {
                    out.push(with(Kind::Json { write: write.clone(), read: IoPlan { chunks: vec![255], eintr_every: 0, fault: read.fault.clone() }, doc: doc.clone() }));
                }
                if !read.is_clean() {
                    out.push(with(Kind::Json { write: write.clone(), read: IoPlan { fault: IoFault::None, ..read.clone() }, doc: doc.clone() }));
                }
                if *doc != Doc::Serialized {
                    out.push(with(Kind::Json { write: write.clone(), read: read.clone(), doc: Doc::Serialized }));
                }
            }
            Kind::Enum { style, via } if *style == 3 => {
                if *via != 0 {
                    out.push(with(Kind::Enum { style: 3, via: 0 }));
                }
            }
            Kind::Enum { style, via } => {
                if *via != 0 && *style != 2 {
                    out.push(with(Kind::Enum { style: *style, via: 0 }));
                }
                if *via == 2 {
                    out.push(with(Kind::Enum { style: 2, via: 0 }));
                }
            }
            Kind::Container { form, via, n, second, third, read } => {
                let mk = |form: u8, via: u8, n: u8, read: IoPlan| with(Kind::Container { form, via, n, second: second.clone(), third: third.clone(), read });
                if *via != 0 {
                    out.push(mk(*form, 0, *n, IoPlan::clean()));
                }
                if *via == 3 && (read.chunks != vec![255] || read.eintr_every != 0) {
                    out.push(mk(*form, 3, *n, IoPlan::clean()));
                }
                if (*form == 0 || *form == 10) && *n > 1 {
                    out.push(mk(*form, *via, *n - 1, read.clone()));
                }
                for simpler in [9u8, 1, 3, 0] {
                    if simpler < *form && !(*form == 10) {
                        out.push(mk(simpler, *via, (*n).max(1), read.clone()));
                    }
                }
                let simple: Vec<u64> = (0..second.len()).map(|j| if scalar_of(c, j).starts_with('u') { (j + 2) as f64 } else { 0.125 * (j + 1) as f64 }.to_bits()).collect();
                if *second != simple || *third != simple {
                    out.push(with(Kind::Container { form: *form, via: *via, n: *n, second: simple.clone(), third: simple, read: read.clone() }));
                }
            }
            Kind::WideUint { which, hi, lo, read } => {
                if read.is_some() {
                    out.push(with(Kind::WideUint { which: *which, hi: *hi, lo: *lo, read: None }));
                }
                for (h, l) in [(0u64, *lo), (*hi, 0u64), (1, 0), (1, 1), (*hi >> 1, *lo), (*hi, *lo >> 1)] {
                    if (h, l) != (*hi, *lo) {
                        out.push(with(Kind::WideUint { which: *which, hi: h, lo: l, read: read.clone() }));
                    }
                }
            }
            Kind::RonOptional { style, missing } => {
                if *style != 0 {
                    out.push(with(Kind::RonOptional { style: 0, missing: *missing }));
                }
            }
            Kind::Ron { style, write, read } => {
                if !write.is_clean() || write.chunks != vec![255] || write.eintr_every != 0 {
                    out.push(with(Kind::Ron { style: *style, write: IoPlan::clean(), read: read.clone() }));
                }
                if !read.is_clean() || read.chunks != vec![255] || read.eintr_every != 0 {
                    out.push(with(Kind::Ron { style: *style, write: write.clone(), read: IoPlan::clean() }));
                }
                if *style != 0 {
                    out.push(with(Kind::Ron { style: 0, write: write.clone(), read: read.clone() }));
                }
            }
            _ => {}
        }
        out
    }

    /// Two things the check looks at without judging them (DESIGN §4.4 and §8.2): both are the
    /// "we can't add to the expected fields so we just hope it works anyway" mechanism.
    fn extra_evidence(&self, _stats: &simcore::core::Stats) -> serde_json::Value {
        use palette::Srgba;
        #[derive(Serialize, Deserialize)]
        struct Flat {
            name: String,
            #[serde(flatten)]
            color: Srgba<f32>,
        }
        // not judged, so it must not be able to end the check either: everything runs under `catch`
        let observed = |r: Caught<String>| match r {
            Caught::Ok(s) => s,
            Caught::Injected(_) => "injected panic".to_string(),
            Caught::Foreign(m) => format!("panicked: {m}"),
        };
        let flatten = observed(catch(|| {
            let flat = Flat { name: "x".into(), color: Srgba::new(0.25, 0.5, 0.75, 0.5) };
            match serde_json::to_string(&flat) {
                Ok(text) => match serde_json::from_str::<Flat>(&text) {
                    Ok(back) => format!("{text} -> round trip ok ({})", back.color == flat.color),
                    Err(e) => format!("{text} -> Err({e})"),
                },
                Err(e) => format!("serialization failed: {e}"),
            }
        }));
        let limited = observed(catch(|| match self.case("Alpha<Rgb<f32>>") {
            Some(c) => {
                let vals = [0.25, 0.5, 0.75, 0.5];
                let peer = Peer::new(None);
                match (c.ops.record)(&vals, &peer) {
                    Ok(tok) => {
                        let pres = Presentation { struct_as: StructAs::Seq, limit_to_declared_fields: true, ..Presentation::plain() };
                        match (c.ops.replay)(&tok, &pres, &Peer::new(None), &vals) {
                            Ok(o) => format!("round trip ok (equal: {})", o.eq),
                            Err(e) => format!("Err({})", e.0),
                        }
                    }
                    Err(e) => format!("serialization failed: {e}"),
                }
            }
            None => "case not found".into(),
        }));
        // a binary (not human readable) peer and a user-defined color that asks the format which kind it is
        let human_readable = observed(catch(|| {
            use std::cell::Cell;
            thread_local! { static SEEN: Cell<(Option<bool>, Option<bool>)> = const { Cell::new((None, None)) }; }
            #[derive(Debug, PartialEq, Clone, Copy)]
            struct Asks(f32);
            #[derive(Serialize, Deserialize)]
            struct AsksRepr {
                v: f32,
            }
            impl Serialize for Asks {
                fn serialize<S: serde::Serializer>(&self, s: S) -> Result<S::Ok, S::Error> {
                    SEEN.with(|c| c.set((Some(s.is_human_readable()), c.get().1)));
                    AsksRepr { v: self.0 }.serialize(s)
                }
            }
            impl<'de> Deserialize<'de> for Asks {
                fn deserialize<D: serde::Deserializer<'de>>(d: D) -> Result<Self, D::Error> {
                    SEEN.with(|c| c.set((c.get().0, Some(d.is_human_readable()))));
                    AsksRepr::deserialize(d).map(|r| Asks(r.v))
                }
            }
            let peer = Peer::new(None);
            peer.human_readable.set(false);
            let value = palette::Alpha { color: Asks(0.5), alpha: 0.25f32 };
            let tok = match value.serialize(tok::Rec { peer: &peer }) {
                Ok(t) => t,
                Err(e) => return format!("serialization failed: {}", e.0),
            };
            let pres = Presentation::plain();
            let back = palette::Alpha::<Asks, f32>::deserialize(tok::Replay { tok: &tok, pres: &pres, peer: &peer, top: true });
            let (ser, de) = SEEN.with(|c| c.get());
            format!(
                "format answers is_human_readable=false; the color inside Alpha was told {:?} while serializing and {:?} while deserializing; round trip {}",
                ser,
                de,
                match back {
                    Ok(b) => format!("ok (equal: {})", b == value),
                    Err(e) => format!("Err({})", e.0),
                }
            )
        }));
        serde_json::json!({
            "observed_not_judged": {
                "is_human_readable_seen_by_a_color_inside_Alpha_under_a_binary_peer": human_readable,
                "serde_flatten_of_Srgba_in_a_user_struct_through_serde_json": flatten,
                "struct_presented_as_a_sequence_of_exactly_fields_len_elements_(bincode_style)": limited,
                "note": "flatten and the length-limited sequence both go through deserialize_struct with the color's own static field list, to which AlphaDeserializer cannot add `alpha`; not a presentation the property's quantifier names, recorded so the limitation is visible; AlphaSerializer forwards is_human_readable to the format, AlphaDeserializer does not (serde's default `true` answers), which no color or hue type of palette can notice because their components are numbers",
            }
        })
    }

    fn info(&self) -> WorldInfo {
        WorldInfo {
            rule: "plan = (case = serializable type: 20 color types x f32|f64 (+u8|u16 for Rgb, Luma) x plain|Alpha|PreAlpha, 5 hue types, 4 user-defined \
                   shapes x plain|Alpha; component values; conversation kind in {SimFormat round trip under a presentation vector, optional-alpha helper, \
                   as_array, as_uint, serde_json over simulated streams with a palette-written or hand-written document, ron over simulated streams, \
                   serde_json::Value, the color as payload of an untagged / internally tagged / adjacently tagged user enum through JSON text, serde_json::Value and RON (serde's buffered Content replay)}); the front of the index space enumerates `peer: error@call k` for every k of every (case, presentation) \
                   conversation; distinct = distinct plan hash; non-trivial = a conversation ran and was judged",
            state_measure: "states = distinct (case, conversation kind, presentation / document form, fault kind, fault position bucket, outcome class); transitions = distinct consecutive pairs within a worker (informational)",
            assumptions: vec![
                "serde, serde_derive, serde_json (float_roundtrip) and ron 0.8 are trusted",
                "text channels carry values whose shortest decimal form is exact (dyadic rationals, integers); the simulated peer carries arbitrary finite bit patterns; hues stay in [0, 180] degrees so that PartialEq and bit equality coincide, except in the raw-hue share of plans (a fixed list of dyadic angles: tiny negatives, negatives, whole turns, beyond a turn), where the hue is judged with the type's own PartialEq only",
                "a length-limited sequence presentation (bincode style) is deliberately not exercised: the source says 'we just hope it works anyway' and the property names self-describing formats and the compact sequence form",
                "after an injected peer or I/O error: Err is always acceptable, Ok only with complete and correct data; nothing is claimed about bytes written before a failed write",
            ],
            real: vec![
                "palette serde/alpha_serializer.rs, serde/alpha_deserializer.rs, serde.rs helpers",
                "palette Alpha / PreAlpha Serialize + Deserialize impls, derived impls of all color types and hues",
                "serde_json and ron 0.8 (channels B, C, D)",
            ],
            stub: vec!["SimFormat: recording Serializer / replaying Deserializer (channel A)", "SimReader / SimWriter byte streams (channels B, C)"],
            expected_probes: vec![
                "alpha-key-first",
                "alpha-key-middle",
                "alpha-key-last",
                "index-key-equals-field-count",
                "seq-presentation-without-size-hint",
                "chunk-boundary-inside-alpha",
                "eintr-delivered",
                "error-at-the-alpha-call",
                "missing-alpha-reported",
                "optional-alpha-defaulted",
                "unknown-key-ignored",
                "duplicate-alpha-rejected",
                "raw-bit-patterns",
                "optional-alpha-defaulted-ron",
                "optional-alpha-present-ron",
                "raw-hue-angles",
                "skip_field-forwarded",
                "helpers-as-attributes-json-and-ron",
                "near-miss-of-the-alpha-key-not-taken-for-alpha",
                "color-read-back-through-serde-Content",
            ],
            expected_faults: vec!["peer:error@call-k(ser)", "peer:error@call-k(de)", "io:short-read", "io:short-write", "io:EINTR", "io:error@byte-k", "io:EOF@byte-k", "io:write-zero"],
            time_note: "palette has no clock; simulated time is reported as steps_executed (= data-model calls and I/O calls)",
        }
    }
}

// ------------------------------------------------------------------ oracles

/// The color's own fields that are really sent for these values, with their value slots (a
/// `skip_serializing_if` field is left out when it is zero).
fn sent_fields(c: &CaseDesc, vals: &[f64]) -> Vec<(&'static str, usize)> {
    c.fields
        .iter()
        .enumerate()
        .filter(|(j, _)| !(c.skip_zero_slot == Some(*j) && vals.get(*j).copied() == Some(0.0)))
        .map(|(j, k)| (*k, j))
        .collect()
}

fn expected_bits(c: &CaseDesc, vals: &[f64]) -> Vec<u64> {
    vals[..c.nvals].iter().enumerate().map(|(j, v)| round_to_scalar(c, j, *v).to_bits()).collect()
}

fn max_alpha(c: &CaseDesc) -> f64 {
    match scalar_of(c, c.nvals.saturating_sub(1)) {
        "u8" => 255.0,
        "u16" => 65535.0,
        _ => 1.0,
    }
}

fn judge_value(ctx: &mut Ctx<'_>, c: &CaseDesc, what: &str, key: &str, got: &Outcome, expect: &[f64]) -> bool {
    ctx.checked();
    let want = expected_bits(c, expect);
    // raw hue angles: the property's notion of "equal" is the type's `PartialEq` (which compares angles), so the
    // hue slot is left to `eq` and only the other components are compared bit for bit
    let raw_hue = RAW_HUE.with(|r| r.get());
    let same_bits = if raw_hue && got.comps.len() == want.len() {
        got.comps.iter().zip(want.iter()).enumerate().all(|(j, (a, b))| a == b || c.hue_slot == Some(j))
    } else {
        got.comps == want
    };
    if !got.eq || !same_bits {
        let show = |b: &[u64]| b.iter().map(|x| format!("{:?}", f64::from_bits(*x))).collect::<Vec<_>>().join(", ");
        return ctx.fail(
            &format!("round-trip:{what}"),
            key,
            format!("{}: {what} gave [{}] (== original: {}), expected [{}]", c.name, show(&got.comps), got.eq, show(&want)),
        );
    }
    false
}

/// The token tree of a wrapped color has the same container kind and name as
/// the color's own, the same fields in the same order, then exactly one more
/// field / element for alpha at the same level, and the declared length is the
/// number of fields sent.
fn judge_shape(ctx: &mut Ctx<'_>, c: &CaseDesc, inner: Option<&CaseDesc>, tok: &Tok, vals: &[f64]) -> bool {
    ctx.checked();
    let key = format!("shape:{}", c.name);
    let bad = |ctx: &mut Ctx<'_>, msg: String| ctx.fail("stable-shape", &key, format!("{}: {msg}; token tree: {tok:?}", c.name));
    // own shape
    match (c.shape, c.wrapper) {
        (Shape::Hue, _) => {
            // "a bare number": a newtype struct around one number (which self-describing formats write as the
            // number) or, with `#[serde(transparent)]`, the number itself
            let ok = tok.is_scalar() || matches!(tok, Tok::Newtype { inner, .. } if inner.is_scalar());
            if !ok {
                return bad(ctx, "a hue must serialize as one bare number".into());
            }
        }
        (Shape::Struct, _) => {
            let Tok::Struct { name, declared_len, fields, skipped: _ } = tok else {
                return bad(ctx, "expected a struct".into());
            };
            if name != c.ser_name {
                return bad(ctx, format!("container name {name:?}, expected {:?}", c.ser_name));
            }
            let sent = sent_fields(c, vals);
            let mut want: Vec<&str> = sent.iter().map(|(k, _)| *k).collect();
            if c.wrapper != Wrapper::None {
                want.push("alpha");
            }
            if sent.len() < c.fields.len() {
                ctx.probe("skip_field-forwarded");
            }
            let got: Vec<&str> = fields.iter().map(|(k, _)| k.as_str()).collect();
            if got != want {
                return bad(ctx, format!("fields {got:?}, expected {want:?} (no type-level metadata, alpha last at the same level)"));
            }
            if *declared_len != fields.len() {
                return bad(ctx, format!("declared length {declared_len} but {} fields were sent", fields.len()));
            }
            for (pos, (k, v)) in fields.iter().enumerate() {
                let j = sent.get(pos).map(|(_, slot)| *slot).unwrap_or(usize::MAX);
                let is_hue = c.hue_slot == Some(j) && k != "alpha";
                let ok = if is_hue { v.is_scalar() || matches!(v, Tok::Newtype { inner, .. } if inner.is_scalar()) } else { v.is_scalar() };
                if !ok {
                    return bad(ctx, format!("field {k:?} is not a bare number"));
                }
            }
        }
        // The user-defined shapes that are not structs with named fields: HOW palette folds the alpha into a
        // tuple struct, a newtype, a unit struct, a tuple, the unit type or a sequence (today: one more element;
        // a newtype becomes a tuple struct of two; a unit struct becomes a newtype around alpha) is not something
        // the property states. What it states for them is the round trip, which the other oracles judge. Here
        // only: the numbers that travel are the color's own numbers, in order, followed by exactly one more for
        // alpha, and a declared length (where the token has one) equals what was sent.
        (Shape::TupleStruct | Shape::Newtype | Shape::Unit | Shape::Tuple | Shape::UnitType | Shape::Seq, _) => {
            let mut leaves = Vec::new();
            tok.leaves(&mut leaves);
            if leaves.len() != c.nvals {
                return bad(ctx, format!("{} numbers travel, expected {} (the color's own{})", leaves.len(), c.nvals, if c.wrapper != Wrapper::None { " plus alpha" } else { "" }));
            }
            if let Some((declared, sent)) = tok.declared_vs_sent() {
                if declared != sent {
                    return bad(ctx, format!("declared length {declared} but {sent} elements were sent"));
                }
            }
        }
    }
    // against the unwrapped color's own tree
    if let Some(ic) = inner {
        let peer = Peer::new(None);
        if let Ok(itok) = (ic.ops.record)(&vals[..ic.nvals.max(1).min(vals.len())], &peer) {
            let same_prefix = match (tok, &itok) {
                (Tok::Struct { name: n1, fields: f1, .. }, Tok::Struct { name: n2, fields: f2, declared_len: d2, .. }) => {
                    n1 == n2 && f1.len() == f2.len() + 1 && f1[..f2.len()] == f2[..] && *d2 == f2.len()
                }
                (Tok::Struct { .. }, _) | (_, Tok::Struct { .. }) => false,
                // the other shapes: the plain color's numbers, then one more
                _ => {
                    let (mut l1, mut l2) = (Vec::new(), Vec::new());
                    tok.leaves(&mut l1);
                    itok.leaves(&mut l2);
                    l1.len() == l2.len() + 1 && l1[..l2.len()] == l2[..]
                }
            };
            if !same_prefix {
                return bad(ctx, format!("the wrapped color's tree is not the plain color's tree plus alpha; plain: {itok:?}"));
            }
        }
    }
    false
}

/// serde_json reports error positions that differ by a column between its
/// slice and reader front ends; that is the format's business. Outcomes are
/// compared with the position stripped.
fn norm(r: &Result<Outcome, String>) -> Result<Outcome, String> {
    match r {
        Ok(o) => Ok(o.clone()),
        Err(e) => Err(match e.find(" at line ") {
            Some(i) => e[..i].to_string(),
            None => e.clone(),
        }),
    }
}

fn perm<T>(v: &mut Vec<T>, order: u8) {
    let n = v.len();
    if n > 1 {
        match order {
            0 => {}
            1 => v.reverse(),
            r => v.rotate_left((r as usize - 1) % n),
        }
    }
}

/// A hand-written JSON document for the case.
fn json_doc(c: &CaseDesc, vals: &[f64], doc: &Doc) -> Option<String> {
    let has_alpha = c.wrapper != Wrapper::None;
    let ncolor = if has_alpha { c.nvals - 1 } else { c.nvals };
    let style = match doc {
        Doc::Object { nums, .. } | Doc::Array { nums, .. } => *nums,
        _ => 0,
    };
    // user shapes mix f32 / f64 fields; all generated values are exact in both
    let nums: Vec<String> = vals[..c.nvals]
        .iter()
        .enumerate()
        .map(|(j, v)| {
            let float = !scalar_of(c, j).starts_with('u');
            match style {
                // whole-valued floats written as integers
                1 if float && v.fract() == 0.0 && v.abs() < 9.0e15 => format!("{}", *v as i64),
                // exponent notation (the digits are the shortest ones of the scalar type, so the value is exact)
                2 if float && scalar_of(c, j) == "f32" => format!("{:e}", *v as f32),
                2 if float => format!("{:e}", *v),
                _ => fmt_scalar(c, j, *v),
            }
        })
        .collect();
    match doc {
        Doc::Serialized => None,
        Doc::Object { order, alpha_pos, spaces, unknown_key_at, .. } => {
            if c.shape != Shape::Struct {
                return None;
            }
            let mut entries: Vec<(String, String)> = c.fields.iter().zip(nums.iter()).map(|(k, v)| (k.to_string(), v.clone())).collect();
            perm(&mut entries, *order);
            if has_alpha {
                let pos = if *alpha_pos == 255 { entries.len() } else { *alpha_pos as usize % (entries.len() + 1) };
                entries.insert(pos, ("alpha".into(), nums[ncolor].clone()));
            }
            if let Some(at) = unknown_key_at {
                let pos = *at as usize % (entries.len() + 1);
                entries.insert(pos, ("comment".into(), "\"alpha\"".into()));
            }
            let (sep, colon, open, close) = if *spaces { (" ,\n  ", " : ", "{ ", " }\n") } else { (",", ":", "{", "}") };
            let body: Vec<String> = entries.iter().map(|(k, v)| format!("\"{k}\"{colon}{v}")).collect();
            Some(format!("{open}{}{close}", body.join(sep)))
        }
        Doc::Array { spaces, .. } => {
            if matches!(c.shape, Shape::Hue | Shape::Unit) || (matches!(c.shape, Shape::Newtype | Shape::UnitType) && !has_alpha) {
                return None; // those are bare values in JSON, not sequences
            }
            let sep = if *spaces { " , " } else { "," };
            Some(format!("[{}]", nums.join(sep)))
        }
        Doc::MissingAlpha { array } => {
            if !has_alpha || c.shape == Shape::Unit {
                return None;
            }
            if *array || c.shape != Shape::Struct {
                Some(format!("[{}]", nums[..ncolor].join(",")))
            } else {
                let body: Vec<String> = c.fields.iter().zip(nums.iter()).map(|(k, v)| format!("\"{k}\":{v}")).collect();
                Some(format!("{{{}}}", body.join(",")))
            }
        }
        Doc::DuplicateAlpha => {
            if !has_alpha || c.shape != Shape::Struct {
                return None;
            }
            let mut body: Vec<String> = c.fields.iter().zip(nums.iter()).map(|(k, v)| format!("\"{k}\":{v}")).collect();
            body.insert(0, format!("\"alpha\":{}", nums[ncolor]));
            body.push(format!("\"alpha\":{}", nums[ncolor]));
            Some(format!("{{{}}}", body.join(",")))
        }
    }
}

fn note_io(ctx: &mut Ctx<'_>, stats: &io::IoStats, reader: bool) {
    ctx.stats.steps += stats.calls as u64;
    if stats.short > 0 {
        ctx.fired(if reader { "io:short-read" } else { "io:short-write" });
    }
    if stats.eintr > 0 {
        ctx.fired("io:EINTR");
        ctx.probe("eintr-delivered");
    }
    if stats.errors > 0 {
        ctx.fired("io:error@byte-k");
    }
    if stats.stops > 0 {
        ctx.fired(if reader { "io:EOF@byte-k" } else { "io:write-zero" });
    }
}

fn bucket(k: Option<u16>) -> u8 {
    match k {
        None => 0,
        Some(0) => 1,
        Some(1..=3) => 2,
        Some(4..=9) => 3,
        Some(_) => 4,
    }
}

fn execute(c: &'static CaseDesc, inner: Option<&'static CaseDesc>, vals: &[f64], kind: &Kind, ctx: &mut Ctx<'_>) {
    let kname = kind.name();
    ctx.cell(c.name, kname);
    ctx.changed();
    let has_alpha = c.wrapper != Wrapper::None;
    ev!(ctx, "case={} kind={kname} vals=[{}]", c.name, vals_text(&vals[..c.nvals.min(vals.len())]));
    match kind {
        Kind::Sim { pres, ser_fail, de_fail } => {
            let key = format!("sim:{}", c.name);
            // where the alpha value travels in the fault-free conversations (for the reach probe only)
            if has_alpha && (ser_fail.is_some() || de_fail.is_some()) {
                let p0 = Peer::new(None);
                if let Ok(t0) = (c.ops.record)(vals, &p0) {
                    if ser_fail.map(|k| k as usize) == p0.alpha_call.get() && p0.alpha_call.get().is_some() {
                        ctx.probe("error-at-the-alpha-call");
                    }
                    let p1 = Peer::new(None);
                    let mut pr = pres.clone();
                    pr.alpha_present = true;
                    let _ = (c.ops.replay)(&t0, &pr, &p1, vals);
                    if let (Some(k), Some(a)) = (de_fail, p1.alpha_call.get()) {
                        // the key call, or the value call right after it
                        if *k as usize == a || *k as usize == a + 1 {
                            ctx.probe("error-at-the-alpha-call");
                        }
                    }
                }
            }
            // ---- serializing side
            let peer = Peer::new(ser_fail.map(|k| k as usize));
            peer.human_readable.set(!pres.binary);
            if pres.binary {
                ctx.probe("binary-self-describing-peer");
            }
            let rec = (c.ops.record)(vals, &peer);
            ctx.stats.steps += peer.calls.get() as u64;
            if peer.fired.get() {
                ctx.fired("peer:error@call-k(ser)");
            }
            ev!(ctx, "serialize: {} calls, fired={}, result={}", peer.calls.get(), peer.fired.get(), if rec.is_ok() { "ok" } else { "err" });
            ctx.state(&(c.name, kname, pres.struct_as as u8, pres.key_form as u8, bucket(*ser_fail), bucket(*de_fail), rec.is_ok()));
            let tok = match rec {
                Ok(t) => t,
                Err(e) => {
                    ctx.checked();
                    if !peer.fired.get() {
                        ctx.fail("serialize-failed", &key, format!("{}: serializing into a healthy peer failed: {e}", c.name));
                    }
                    return; // an error after an injected peer error is always acceptable
                }
            };
            // Ok: complete and correct, whether or not the peer failed on the way
            // the shape clauses of the property speak about self-describing text formats: under a binary peer only
            // the round trip and the missing-alpha rule are judged
            if !pres.binary && judge_shape(ctx, c, inner, &tok, vals) {
                return;
            }
            if peer.fired.get() {
                ctx.fail("swallowed-peer-error", &key, format!("{}: the peer failed at call {:?} but serialization reported success", c.name, ser_fail));
                return;
            }
            // ---- deserializing side
            let mut pres = pres.clone();
            if sent_fields(c, vals).len() < c.fields.len() {
                // a field was left out of the output: such a document only exists in keyed form (positions would shift)
                pres.struct_as = StructAs::Map;
            }
            if !has_alpha || c.shape == Shape::Unit {
                // a unit color with alpha *is* its alpha: there is no document without it
                pres.alpha_present = true;
            }
            let peer = Peer::new(de_fail.map(|k| k as usize));
            peer.human_readable.set(!pres.binary);
            // what the document says: where it carries no alpha, the only right answer (if it is accepted at all) is
            // full opacity — the outcome's own `==` must be taken against that, not against the alpha that was left out
            let mut said = vals.to_vec();
            if has_alpha && !pres.alpha_present {
                said[c.nvals - 1] = max_alpha(c);
            }
            let got = (c.ops.replay)(&tok, &pres, &peer, &said);
            ctx.stats.steps += peer.calls.get() as u64;
            if peer.fired.get() {
                ctx.fired("peer:error@call-k(de)");
            }
            ev!(ctx, "deserialize under {:?}: {} calls, fired={}, result={}", pres, peer.calls.get(), peer.fired.get(), match &got { Ok(_) => "ok".to_string(), Err(e) => format!("err({})", e.0) });
            note_presentation(ctx, c, &pres);
            let index_keys = matches!(pres.key_form, KeyForm::U64Index | KeyForm::U8Index | KeyForm::U32Index);
            match got {
                Ok(o) => {
                    if has_alpha && !pres.alpha_present {
                        // The plain impls reject such a document today. The property only says what a
                        // missing alpha may turn into (full opacity), so accepting it is wrong only if
                        // the color or the alpha that comes out is something else.
                        if judge_value(ctx, c, "document without alpha accepted", &key, &o, &said) {
                            return;
                        }
                        ctx.probe("missing-alpha-accepted-as-opaque");
                        return;
                    }
                    if judge_value(ctx, c, "SimFormat round trip", &key, &o, vals) {
                        return;
                    }
                    if pres.unknown_key_at.is_some() && pres.struct_as == StructAs::Map && c.shape == Shape::Struct && !index_keys {
                        ctx.probe("unknown-key-ignored");
                        if pres.unknown_key_kind % 6 != 0 {
                            ctx.probe("near-miss-of-the-alpha-key-not-taken-for-alpha");
                        }
                    }
                }
                Err(e) => {
                    ctx.checked();
                    if peer.fired.get() {
                        return; // always acceptable
                    }
                    if has_alpha && !pres.alpha_present {
                        // how the rejection is worded is not part of the property
                        if e.0.contains("alpha") {
                            ctx.probe("missing-alpha-reported");
                        }
                        return;
                    }
                    if pres.unknown_key_at.is_some() && pres.struct_as == StructAs::Map && c.shape == Shape::Struct && (!index_keys || pres.unknown_key_kind % 6 != 0) {
                        // the document carries a key palette never writes; ignoring it (today) and rejecting it are both fine
                        ctx.probe("unknown-key-rejected");
                        return;
                    }
                    let string_key = matches!(pres.key_form, KeyForm::BorrowedStr | KeyForm::TransientStr | KeyForm::OwnedString);
                    if pres.struct_as == StructAs::Map && c.shape == Shape::Struct && !string_key {
                        // keys as bytes or as field indices: what compact self-describing formats do, not JSON or
                        // RON. The adapter implements them today; the property does not ask for it. A rejection is
                        // fine, an accepted document must still yield the right color (judged above).
                        ctx.probe("non-string-key-form-rejected");
                        return;
                    }
                    ctx.fail("deserialize-failed", &key, format!("{}: a healthy peer presenting {:?} was rejected: {}", c.name, pres, e.0));
                }
            }
        }
        Kind::SimOptional { pres, de_fail } => {
            let Some(opt) = c.opt.as_ref() else { return };
            let key = format!("optional-alpha:{}", c.name);
            let peer = Peer::new(None);
            let Ok(tok) = (c.ops.record)(vals, &peer) else {
                ctx.fail("serialize-failed", &key, format!("{}: serializing into a healthy peer failed", c.name));
                return;
            };
            let mut pres = pres.clone();
            if c.shape == Shape::Unit {
                pres.alpha_present = true;
            }
            if sent_fields(c, vals).len() < c.fields.len() {
                pres.struct_as = StructAs::Map;
            }
            let pres = &pres;
            let mut expect = vals.to_vec();
            if !pres.alpha_present {
                expect[c.nvals - 1] = max_alpha(c);
            }
            let peer = Peer::new(de_fail.map(|k| k as usize));
            peer.human_readable.set(!pres.binary);
            if pres.binary {
                ctx.probe("binary-self-describing-peer");
            }
            let got = (opt.replay)(&tok, pres, &peer, &expect);
            ctx.stats.steps += peer.calls.get() as u64;
            if peer.fired.get() {
                ctx.fired("peer:error@call-k(de)");
            }
            ctx.state(&(c.name, kname, pres.struct_as as u8, pres.key_form as u8, pres.alpha_present, bucket(*de_fail), got.is_ok()));
            ev!(ctx, "optional-alpha under {:?}: {} calls, fired={}, ok={}", pres, peer.calls.get(), peer.fired.get(), got.is_ok());
            match got {
                Ok(o) => {
                    // also after an injected error: a substituted default for an alpha it failed to read is wrong data
                    if judge_value(ctx, c, "deserialize_with_optional_alpha", &key, &o, &expect) {
                        return;
                    }
                    if !pres.alpha_present {
                        ctx.probe("optional-alpha-defaulted");
                    }
                }
                Err(e) => {
                    ctx.checked();
                    let index_keys = matches!(pres.key_form, KeyForm::U64Index | KeyForm::U8Index | KeyForm::U32Index);
                    let unknown_key = pres.unknown_key_at.is_some() && pres.struct_as == StructAs::Map && c.shape == Shape::Struct && (!index_keys || pres.unknown_key_kind % 6 != 0);
                    let string_key = matches!(pres.key_form, KeyForm::BorrowedStr | KeyForm::TransientStr | KeyForm::OwnedString);
                    let non_string_key = pres.struct_as == StructAs::Map && c.shape == Shape::Struct && !string_key;
                    if !peer.fired.get() && c.shape != Shape::Unit && !unknown_key && !non_string_key {
                        ctx.fail("optional-alpha-failed", &key, format!("{}: optional-alpha deserialization from a healthy peer ({:?}) failed: {}", c.name, pres, e.0));
                    }
                }
            }
        }
        Kind::SimArray { ser_fail, de_fail } => {
            let Some(arr) = c.arr.as_ref() else { return };
            let key = format!("as_array:{}", c.name);
            let peer = Peer::new(ser_fail.map(|k| k as usize));
            let rec = (arr.record)(vals, &peer);
            ctx.stats.steps += peer.calls.get() as u64;
            if peer.fired.get() {
                ctx.fired("peer:error@call-k(ser)");
            }
            ctx.state(&(c.name, kname, bucket(*ser_fail), bucket(*de_fail), rec.is_ok()));
            let tok = match rec {
                Ok(t) => t,
                Err(e) => {
                    ctx.checked();
                    if !peer.fired.get() {
                        ctx.fail("serialize-failed", &key, format!("{}: serialize_as_array into a healthy peer failed: {e}", c.name));
                    }
                    return;
                }
            };
            ctx.checked();
            let want = (arr.cast_tok)(vals);
            if tok != want || peer.fired.get() {
                ctx.fail("as_array-shape", &key, format!("{}: serialize_as_array produced {tok:?}, cast::into_array serializes as {want:?} (peer failed: {})", c.name, peer.fired.get()));
                return;
            }
            let peer = Peer::new(de_fail.map(|k| k as usize));
            let got = (arr.replay)(&tok, &Presentation::plain(), &peer, vals);
            ctx.stats.steps += peer.calls.get() as u64;
            if peer.fired.get() {
                ctx.fired("peer:error@call-k(de)");
            }
            match got {
                Ok(o) => {
                    judge_value(ctx, c, "as_array round trip", &key, &o, vals);
                }
                Err(e) => {
                    ctx.checked();
                    if !peer.fired.get() {
                        ctx.fail("deserialize-failed", &key, format!("{}: deserialize_as_array from a healthy peer failed: {}", c.name, e.0));
                    }
                }
            }
        }
        Kind::Packed { which, channels, ser_fail, de_fail } => {
            let all = packed::all();
            let p = all[*which as usize % all.len()];
            let key = format!("as_uint:{}", p.name);
            ctx.cell(p.name, "as_uint");
            let peer = Peer::new(ser_fail.map(|k| k as usize));
            let rec = (p.record)(channels, &peer);
            if peer.fired.get() {
                ctx.fired("peer:error@call-k(ser)");
            }
            ctx.state(&(p.name, kname, bucket(*ser_fail), bucket(*de_fail), rec.is_ok()));
            ctx.checked();
            let (tok, uint) = match rec {
                Ok(x) => x,
                Err(e) => {
                    if !peer.fired.get() {
                        ctx.fail("serialize-failed", &key, format!("{}: serialize_as_uint into a healthy peer failed: {e}", p.name));
                    }
                    return;
                }
            };
            let as_unsigned = match &tok {
                Tok::U8(v) => Some(*v as u64),
                Tok::U16(v) => Some(*v as u64),
                Tok::U32(v) => Some(*v as u64),
                Tok::U64(v) => Some(*v),
                _ => None,
            };
            if as_unsigned != Some(uint) || peer.fired.get() {
                ctx.fail("as_uint-shape", &key, format!("{}: serialize_as_uint produced {tok:?}, cast::into_uint gives {uint}", p.name));
                return;
            }
            let peer = Peer::new(de_fail.map(|k| k as usize));
            match (p.replay)(&tok, &Presentation::plain(), &peer) {
                Ok(back) => {
                    if back[..p.used] != channels[..p.used] {
                        ctx.fail("round-trip:as_uint", &key, format!("{}: {channels:?} came back as {back:?}", p.name));
                        return;
                    }
                }
                Err(e) => {
                    if !peer.fired.get() {
                        ctx.fail("deserialize-failed", &key, format!("{}: deserialize_as_uint from a healthy peer failed: {}", p.name, e.0));
                        return;
                    }
                    ctx.fired("peer:error@call-k(de)");
                }
            }
            match (p.json)(channels) {
                Ok((text, back)) => {
                    if text != uint.to_string() || back[..p.used] != channels[..p.used] {
                        ctx.fail("round-trip:as_uint", &key, format!("{}: JSON form {text:?} (expected {uint}), channels back {back:?}", p.name));
                    }
                }
                Err(e) => {
                    ctx.fail("serialize-failed", &key, format!("{}: as_uint through serde_json failed: {e}", p.name));
                }
            }
        }
        Kind::Json { write, read, doc } => {
            let key = format!("json:{}", c.name);
            // fault-free twin
            let text = match (c.ops.json_string)(vals) {
                Ok(t) => t,
                Err(e) => {
                    ctx.fail("serialize-failed", &key, format!("{}: serde_json::to_string failed: {e}", c.name));
                    return;
                }
            };
            ctx.checked();
            // JSON text shape: cross-check of the stable-shape oracle
            if let Some(msg) = json_shape_problem(c, vals, &text) {
                ctx.fail("stable-shape-json", &format!("shape:{}", c.name), format!("{}: {msg}; JSON: {text}", c.name));
                return;
            }
            // writer under faults
            let mut w = SimWriter::new(write);
            let wr = (c.ops.json_write)(vals, &mut w);
            note_io(ctx, &w.stats, false);
            ctx.checked();
            match wr {
                Ok(()) => {
                    if w.accepted != text.as_bytes() {
                        ctx.fail("write-acknowledged-wrong-bytes", &key, format!("{}: to_writer returned Ok but the sink holds {:?}, expected {text:?}", c.name, String::from_utf8_lossy(&w.accepted)));
                        return;
                    }
                }
                Err(e) => {
                    if write.is_clean() {
                        ctx.fail("write-failed", &key, format!("{}: to_writer into a healthy sink failed: {e}", c.name));
                        return;
                    }
                }
            }
            // the document to read
            let document = json_doc(c, vals, doc).unwrap_or_else(|| text.clone());
            let bytes = document.as_bytes();
            let expect_err = matches!(doc, Doc::MissingAlpha { .. } | Doc::DuplicateAlpha) && json_doc(c, vals, doc).is_some();
            // what the document says (full opacity where it carries no alpha): see the SimFormat kind
            let mut said = vals.to_vec();
            if matches!(doc, Doc::MissingAlpha { .. }) && expect_err {
                said[c.nvals - 1] = max_alpha(c);
            }
            let said: &[f64] = &said;
            let baseline = (c.ops.json_from_slice)(bytes, said);
            let via_str = (c.ops.json_from_str)(&document, said);
            ctx.checked();
            ctx.state(&(c.name, kname, std::mem::discriminant(doc), std::mem::discriminant(&read.fault), std::mem::discriminant(&write.fault), baseline.is_ok()));
            ev!(ctx, "document {document:?} -> {}", match &baseline { Ok(_) => "ok".to_string(), Err(e) => format!("err({e})") });
            // `deserialize_in_place` into a value that already exists (another color, another alpha) is the same
            // function as far as a caller can tell: serde's default forwards to `deserialize`, an override must agree
            let place: Vec<f64> = (0..vals.len()).map(|j| vals[(j + 1) % vals.len()]).collect();
            let in_place = (c.ops.json_in_place)(&document, &place, said);
            ctx.checked();
            // (how a refusal is worded is not compared)
            let agree = match (&baseline, &in_place) {
                (Ok(a), Ok(b)) => a == b,
                (Err(_), Err(_)) => true,
                _ => false,
            };
            if !agree {
                ctx.fail("deserialize_in_place-vs-deserialize", &key, format!("{}: deserialize_in_place over an existing value gives {in_place:?}, deserialize gives {baseline:?} for {document:?}", c.name));
                return;
            }
            if norm(&baseline) != norm(&via_str) {
                ctx.fail("from_str-vs-from_slice", &key, format!("{}: from_str gives {via_str:?}, from_slice gives {baseline:?} for {document:?}", c.name));
                return;
            }
            match (&baseline, expect_err) {
                (Ok(o), false) => {
                    if judge_value(ctx, c, "JSON round trip", &key, o, vals) {
                        return;
                    }
                    if let Doc::Object { alpha_pos, unknown_key_at, .. } = doc {
                        if has_alpha {
                            let n = c.fields.len();
                            let pos = if *alpha_pos == 255 { n } else { *alpha_pos as usize % (n + 1) };
                            ctx.probe(if pos == 0 { "alpha-key-first" } else if pos == n { "alpha-key-last" } else { "alpha-key-middle" });
                        }
                        if unknown_key_at.is_some() {
                            ctx.probe("unknown-key-ignored");
                        }
                    }
                }
                (Err(e), false) => {
                    if matches!(doc, Doc::Object { unknown_key_at: Some(_), .. }) && json_doc(c, vals, doc).is_some() {
                        // a key palette never writes: ignoring it (today) and rejecting it are both fine
                        ctx.probe("unknown-key-rejected");
                    } else {
                        ctx.fail("deserialize-failed", &key, format!("{}: serde_json rejected {document:?}: {e}", c.name));
                        return;
                    }
                }
                (Ok(o), true) => {
                    // Documents palette never writes (no alpha / alpha twice, both times the same value) are
                    // rejected today. Nothing in the property demands the rejection; accepting one is wrong
                    // only if what comes out is not the color (with full opacity where alpha was missing).
                    if judge_value(ctx, c, "hand-written document accepted", &key, o, said) {
                        return;
                    }
                    ctx.probe("odd-document-accepted-with-right-value");
                }
                (Err(e), true) => {
                    if matches!(doc, Doc::MissingAlpha { .. }) {
                        if e.contains("alpha") {
                            ctx.probe("missing-alpha-reported");
                        }
                    } else if e.contains("duplicate") {
                        ctx.probe("duplicate-alpha-rejected");
                    }
                }
            }
            // reader under faults: identical to from_slice on the bytes that were delivered
            let mut r = SimReader::new(bytes, read);
            let got = (c.ops.json_from_reader)(&mut r, said);
            note_io(ctx, &r.stats, true);
            ctx.checked();
            if let Some(a) = document.find("alpha") {
                if r.boundaries.iter().any(|b| *b > a && *b < a + 5) {
                    ctx.probe("chunk-boundary-inside-alpha");
                }
            }
            match read.fault {
                IoFault::None => {
                    if norm(&got) != norm(&baseline) {
                        ctx.fail("from_reader-vs-from_slice", &key, format!("{}: from_reader over {:?} gives {got:?}, from_slice gives {baseline:?} for {document:?}", c.name, read));
                    }
                }
                IoFault::ErrorAt(k) => {
                    if (k as usize) <= bytes.len() {
                        if let Ok(o) = &got {
                            ctx.fail("io-error-swallowed", &key, format!("{}: the stream failed at byte {k} of {document:?} but from_reader returned {:?}", c.name, o.comps));
                        }
                    } else if norm(&got) != norm(&baseline) {
                        ctx.fail("from_reader-vs-from_slice", &key, format!("{}: from_reader gives {got:?}, from_slice gives {baseline:?}", c.name));
                    }
                }
                IoFault::StopAt(k) => {
                    let cut = (k as usize).min(bytes.len());
                    let prefix = (c.ops.json_from_slice)(&bytes[..cut], said);
                    if norm(&got) != norm(&prefix) {
                        ctx.fail("from_reader-vs-from_slice", &key, format!("{}: EOF after {cut} bytes: from_reader gives {got:?}, from_slice on the prefix gives {prefix:?}", c.name));
                    }
                }
            }
        }
        Kind::JsonOptional { doc } => {
            let Some(opt) = c.opt.as_ref() else { return };
            let key = format!("optional-alpha:{}", c.name);
            let text = match (c.ops.json_string)(vals) {
                Ok(t) => t,
                Err(e) => {
                    ctx.fail("serialize-failed", &key, format!("{}: serde_json::to_string failed: {e}", c.name));
                    return;
                }
            };
            let hand = json_doc(c, vals, doc);
            let missing = matches!(doc, Doc::MissingAlpha { .. }) && hand.is_some();
            let document = hand.unwrap_or(text);
            let mut expect = vals.to_vec();
            if missing {
                expect[c.nvals - 1] = max_alpha(c);
            }
            let got = (opt.json_from_str)(&document, &expect);
            ctx.state(&(c.name, kname, std::mem::discriminant(doc), got.is_ok()));
            ev!(ctx, "optional-alpha document {document:?} -> ok={}", got.is_ok());
            match got {
                Ok(o) => {
                    if judge_value(ctx, c, "deserialize_with_optional_alpha (JSON)", &key, &o, &expect) {
                        return;
                    }
                    if missing {
                        ctx.probe("optional-alpha-defaulted");
                    }
                }
                Err(e) => {
                    ctx.checked();
                    ctx.fail("optional-alpha-failed", &key, format!("{}: optional-alpha deserialization of {document:?} failed: {e}", c.name));
                }
            }
        }
        Kind::JsonArray => {
            let Some(arr) = c.arr.as_ref() else { return };
            let key = format!("as_array:{}", c.name);
            ctx.state(&(c.name, kname));
            ctx.checked();
            match (arr.json_string)(vals) {
                Ok(text) => {
                    let want = format!("[{}]", vals[..c.nvals].iter().enumerate().map(|(j, v)| fmt_scalar(c, j, *v)).collect::<Vec<_>>().join(","));
                    if text != want {
                        ctx.fail("as_array-shape", &key, format!("{}: serialize_as_array wrote {text:?}, the components are {want:?}", c.name));
                        return;
                    }
                    match (arr.json_from_str)(&text, vals) {
                        Ok(o) => {
                            judge_value(ctx, c, "as_array round trip (JSON)", &key, &o, vals);
                        }
                        Err(e) => {
                            ctx.fail("deserialize-failed", &key, format!("{}: deserialize_as_array of {text:?} failed: {e}", c.name));
                        }
                    }
                }
                Err(e) => {
                    ctx.fail("serialize-failed", &key, format!("{}: serialize_as_array through serde_json failed: {e}", c.name));
                }
            }
        }
        Kind::Ron { style, write, read } => {
            let key = format!("ron:{}", c.name);
            let st = match style % 3 {
                0 => RonStyle::Compact,
                1 => RonStyle::Named,
                _ => RonStyle::Pretty,
            };
            let text = match (c.ops.ron_string)(vals, st) {
                Ok(t) => t,
                Err(e) => {
                    ctx.fail("serialize-failed", &key, format!("{}: ron::to_string failed: {e}", c.name));
                    return;
                }
            };
            ctx.state(&(c.name, kname, *style % 3, std::mem::discriminant(&read.fault), std::mem::discriminant(&write.fault)));
            ev!(ctx, "ron document {text:?}");
            // writer (compact form) under faults
            let compact = (c.ops.ron_string)(vals, RonStyle::Compact).unwrap_or_default();
            let mut w = SimWriter::new(write);
            let wr = (c.ops.ron_write)(vals, &mut w);
            note_io(ctx, &w.stats, false);
            ctx.checked();
            match wr {
                Ok(()) => {
                    if w.accepted != compact.as_bytes() {
                        ctx.fail("write-acknowledged-wrong-bytes", &key, format!("{}: ron to_writer returned Ok but the sink holds {:?}, expected {compact:?}", c.name, String::from_utf8_lossy(&w.accepted)));
                        return;
                    }
                }
                Err(e) => {
                    if write.is_clean() {
                        ctx.fail("write-failed", &key, format!("{}: ron to_writer into a healthy sink failed: {e}", c.name));
                        return;
                    }
                }
            }
            let baseline = (c.ops.ron_from_str)(&text, vals);
            match &baseline {
                Ok(o) => {
                    if judge_value(ctx, c, "RON round trip", &key, o, vals) {
                        return;
                    }
                }
                Err(e) => {
                    ctx.checked();
                    ctx.fail("deserialize-failed", &key, format!("{}: ron rejected its own output {text:?}: {e}", c.name));
                    return;
                }
            }
            let mut r = SimReader::new(text.as_bytes(), read);
            let got = (c.ops.ron_from_reader)(&mut r, vals);
            note_io(ctx, &r.stats, true);
            ctx.checked();
            match read.fault {
                IoFault::None => {
                    if got != baseline {
                        ctx.fail("from_reader-vs-from_str", &key, format!("{}: ron from_reader gives {got:?}, from_str gives {baseline:?}", c.name));
                    }
                }
                IoFault::ErrorAt(k) => {
                    if (k as usize) <= text.len() {
                        if let Ok(o) = &got {
                            ctx.fail("io-error-swallowed", &key, format!("{}: the stream failed at byte {k} but ron from_reader returned {:?}", c.name, o.comps));
                        }
                    } else if got != baseline {
                        ctx.fail("from_reader-vs-from_str", &key, format!("{}: ron from_reader gives {got:?}, from_str gives {baseline:?}", c.name));
                    }
                }
                IoFault::StopAt(k) => {
                    let cut = (k as usize).min(text.len());
                    let prefix = (c.ops.ron_from_str)(&text[..cut], vals);
                    if got.is_ok() != prefix.is_ok() || (got.is_ok() && got != prefix) {
                        ctx.fail("from_reader-vs-from_str", &key, format!("{}: EOF after {cut} bytes: ron from_reader gives {got:?}, from_str on the prefix gives {prefix:?}", c.name));
                    }
                }
            }
        }
        Kind::RonOptional { style, missing } => {
            let Some(opt) = c.opt.as_ref() else { return };
            let key = format!("optional-alpha:{}", c.name);
            let st = match style % 3 {
                0 => RonStyle::Compact,
                1 => RonStyle::Named,
                _ => RonStyle::Pretty,
            };
            // without alpha: exactly what palette writes for the plain color
            let missing = *missing && c.shape != Shape::Unit && inner.is_some();
            let text = match (missing, inner) {
                (true, Some(ic)) => (ic.ops.ron_string)(vals, st),
                _ => (c.ops.ron_string)(vals, st),
            };
            let document = match text {
                Ok(t) => t,
                Err(e) => {
                    ctx.fail("serialize-failed", &key, format!("{}: ron::to_string failed: {e}", c.name));
                    return;
                }
            };
            let mut expect = vals.to_vec();
            if missing {
                expect[c.nvals - 1] = max_alpha(c);
            }
            let got = (opt.ron_from_str)(&document, &expect);
            ctx.state(&(c.name, kname, *style % 3, missing, got.is_ok()));
            ev!(ctx, "optional-alpha RON document {document:?} -> ok={}", got.is_ok());
            match got {
                Ok(o) => {
                    if judge_value(ctx, c, "deserialize_with_optional_alpha (RON)", &key, &o, &expect) {
                        return;
                    }
                    ctx.probe(if missing { "optional-alpha-defaulted-ron" } else { "optional-alpha-present-ron" });
                }
                Err(e) => {
                    ctx.checked();
                    ctx.fail("optional-alpha-failed", &key, format!("{}: optional-alpha deserialization of the RON document {document:?} failed: {e}", c.name));
                }
            }
        }
        Kind::Attrs { bytes, without_optional_alpha } => {
            let key = "helpers-as-attributes".to_string();
            ctx.state(&(kname, *without_optional_alpha));
            let doc = cases::attrs::build(bytes);
            ctx.checked();
            let text = match serde_json::to_string(&doc) {
                Ok(t) => t,
                Err(e) => {
                    ctx.fail("serialize-failed", &key, format!("a document using the helper attributes failed to serialize: {e}"));
                    return;
                }
            };
            let want = cases::attrs::expected_json(bytes);
            if text != want {
                ctx.fail("helpers-shape", &key, format!("a document using the helper attributes serialized as {text}, expected {want}"));
                return;
            }
            // optionally without the alpha of the `deserialize_with_optional_alpha` field: full opacity expected
            let mut expect = doc.clone();
            let mut input = text.clone();
            if *without_optional_alpha {
                let alpha_text = format!(",\"alpha\":{}}},\"plain\"", serde_json::to_string(&doc.optional.alpha).unwrap_or_default());
                input = input.replacen(&alpha_text, "},\"plain\"", 1);
                expect.optional.alpha = 1.0;
            }
            match serde_json::from_str::<cases::attrs::Document>(&input) {
                Ok(back) if back == expect => {}
                Ok(back) => {
                    ctx.fail("round-trip:helpers-as-attributes", &key, format!("JSON {input} came back as {back:?}, expected {expect:?}"));
                    return;
                }
                Err(e) => {
                    ctx.fail("deserialize-failed", &key, format!("JSON {input} was rejected: {e}"));
                    return;
                }
            }
            // RON
            ctx.checked();
            match ron::to_string(&doc) {
                Ok(r) => match ron::from_str::<cases::attrs::Document>(&r) {
                    Ok(back) if back == doc => ctx.probe("helpers-as-attributes-json-and-ron"),
                    Ok(back) => {
                        ctx.fail("round-trip:helpers-as-attributes", &key, format!("RON {r} came back as {back:?}"));
                    }
                    Err(e) => {
                        ctx.fail("deserialize-failed", &key, format!("RON {r} was rejected: {e}"));
                    }
                },
                Err(e) => {
                    ctx.fail("serialize-failed", &key, format!("a document using the helper attributes failed to serialize to RON: {e}"));
                }
            }
        }
        Kind::Enum { style, via } => {
            let sname = ["untagged", "internally-tagged", "adjacently-tagged", "untagged-among-other-colors"][(*style).min(3) as usize];
            let vname = ["json-text", "json-value", "ron"][(*via).min(2) as usize];
            let key = format!("enum:{sname}:{vname}:{}", c.name);
            ctx.state(&(c.name, kname, *style, *via));
            ctx.step();
            match (c.ops.enum_round)(vals, *style, *via) {
                Ok(cases::EnumRound::Back { text, outcome }) => {
                    ctx.probe("color-read-back-through-serde-Content");
                    if judge_value(ctx, c, &format!("{sname} enum payload through {vname}"), &key, &outcome, vals) {
                        return;
                    }
                    if *style == 3 {
                        cross_offer(ctx, c, &key, &text);
                    }
                    // "an `alpha` field at the same level": an internally tagged enum puts its tag into the color's
                    // own object, so there is exactly one object and one `alpha` key in it
                    if *style == 1 && *via != 2 && c.shape == Shape::Struct && c.wrapper != Wrapper::None {
                        ctx.checked();
                        if text.matches('{').count() != 1 || text.matches("\"alpha\":").count() != 1 {
                            ctx.fail("stable-shape", &key, format!("{}: tag, the color's fields and alpha are not one flat object: {text}", c.name));
                        }
                    }
                }
                Ok(cases::EnumRound::OtherVariant { text, which, back_text }) => {
                    // Another color type of the enum took the document. That is serde's business as long as the
                    // type found all of its own components in the document (see `nothing_made_up`)
                    ctx.probe("document-taken-by-another-color-type-of-the-enum");
                    if nothing_made_up(ctx, c, &key, &text, which, &back_text) {
                        return;
                    }
                    cross_offer(ctx, c, &key, &text);
                }
                Ok(cases::EnumRound::NotExpressible(why)) => {
                    // serde cannot tag a sequence, a number or a unit internally; a named-field color is a map and
                    // must be expressible in JSON under every tagging
                    if c.shape == Shape::Struct && *via != 2 {
                        ctx.checked();
                        ctx.fail("serialize-failed", &key, format!("{}: {sname} enum payload could not be written: {why}", c.name));
                    } else {
                        ctx.extra("enum-form-not-expressible-for-this-shape", 1);
                    }
                }
                Err(e) => {
                    ctx.checked();
                    ctx.fail("deserialize-failed", &key, format!("{}: {sname} enum payload through {vname}: {e}", c.name));
                }
            }
        }
        Kind::Container { form, via, n, second, third, read } => {
            let fname = cases::CONTAINER_FORMS[(*form as usize).min(cases::CONTAINER_FORMS.len() - 1)];
            let vname = ["json-text", "json-value", "ron", "json-reader"][(*via).min(3) as usize];
            let key = format!("container:{fname}:{vname}:{}", c.name);
            ctx.state(&(c.name, kname, *form, *via, *n));
            let widen = |bits: &Vec<u64>| -> Vec<f64> {
                let mut v: Vec<f64> = bits.iter().enumerate().map(|(j, b)| round_to_scalar(c, j, f64::from_bits(*b))).collect();
                while v.len() < c.nvals {
                    v.push(vals[v.len()]);
                }
                v
            };
            let (v2, v3) = (widen(second), widen(third));
            let args = cases::ContainerArgs { vals: [vals, &v2, &v3], form: *form, via: *via, n: *n, read };
            // JSON writes `Some(x)` as x: an option around a document that is itself `null` (a unit color) cannot be
            // told from `None` — between serde and JSON, nothing palette decides
            if *form == 1 && *via != 2 && (c.ops.json_string)(vals).map(|t| t == "null").unwrap_or(false) {
                ctx.extra("option-around-a-null-document-not-judged", 1);
                return;
            }
            ctx.step();
            match (c.ops.container_round)(&args) {
                Ok(cases::ContainerRound::Back { text, composed, outcomes, others_ok, io }) => {
                    if let Some(st) = io {
                        note_io(ctx, &st, true);
                    }
                    ctx.checked();
                    if !others_ok {
                        ctx.fail("round-trip:container", &key, format!("{}: {fname} through {vname}: what surrounds the colors did not come back as written (or a color went missing): {text}", c.name));
                        return;
                    }
                    let expected_positions = match *form {
                        0 | 10 => (*n).min(3) as usize,
                        2 => 0,
                        1 | 7 | 9 => 1,
                        6 => 3,
                        _ => 2,
                    };
                    if outcomes.len() != expected_positions {
                        ctx.fail("round-trip:container", &key, format!("{}: {fname} through {vname}: {} colors came back, {expected_positions} were written: {text}", c.name, outcomes.len()));
                        return;
                    }
                    for (i, o) in &outcomes {
                        let expect: &[f64] = args.vals[*i];
                        // only the first position may carry a raw hue angle
                        if *i > 0 {
                            RAW_HUE.with(|r| r.set(false));
                        }
                        if judge_value(ctx, c, &format!("{fname} through {vname}, position {i}"), &key, o, expect) {
                            return;
                        }
                    }
                    if outcomes.len() > 1 {
                        ctx.probe("several-colors-in-one-document");
                    }
                    if *form == 10 && outcomes.len() > 1 {
                        ctx.probe("color-followed-by-another-document-on-the-stream");
                    }
                    // context independence of the shape: the document is its parts, each as written on its own
                    if let Some(comp) = composed {
                        ctx.checked();
                        if comp != text {
                            ctx.fail("stable-shape", &key, format!("{}: {fname} through {vname}: the color inside the document is not written as on its own: {text} vs. {comp}", c.name));
                        } else {
                            ctx.probe("document-equals-its-parts");
                        }
                    }
                }
                Ok(cases::ContainerRound::NotExpressible(why)) => {
                    // nothing here is beyond JSON; RON may refuse shapes of its own accord
                    if *via != 2 {
                        ctx.checked();
                        ctx.fail("serialize-failed", &key, format!("{}: {fname} could not be written through {vname}: {why}", c.name));
                    } else {
                        ctx.extra("container-form-not-expressible-in-ron", 1);
                    }
                }
                Err(e) => {
                    ctx.checked();
                    ctx.fail("deserialize-failed", &key, format!("{}: {fname} through {vname}: {e}", c.name));
                }
            }
        }
        Kind::WideUint { which, hi, lo, read } => {
            let all = cases::wide::all();
            let w = all[*which as usize % all.len()];
            let key = format!("as_uint:{}", w.name);
            ctx.cell(w.name, "as_uint-wide");
            let v: u128 = ((*hi as u128) << 64) | *lo as u128;
            let v = if w.bits == 64 { v & u64::MAX as u128 } else { v };
            ctx.state(&(w.name, kname, read.is_some(), v > u64::MAX as u128));
            ctx.step();
            ctx.checked();
            match (w.round)(v, read.as_ref()) {
                Ok((text, cast_digits, back)) => {
                    if v > u64::MAX as u128 {
                        ctx.probe("as_uint-value-above-u64-max");
                    }
                    if text != cast_digits {
                        ctx.fail("as_uint-shape", &key, format!("{}: as_uint wrote {text}, cast::into_uint gives {cast_digits}", w.name));
                    } else if back != v {
                        ctx.fail("round-trip:as_uint", &key, format!("{}: {v} written as {text} came back as {back}", w.name));
                    }
                }
                Err(e) => {
                    ctx.fail("deserialize-failed", &key, format!("{}: as_uint round trip of {v} through JSON failed: {e}", w.name));
                }
            }
        }
        Kind::Value => {
            let key = format!("json-value:{}", c.name);
            ctx.state(&(c.name, kname));
            match (c.ops.json_via_value)(vals) {
                Ok(o) => {
                    judge_value(ctx, c, "serde_json::Value round trip", &key, &o, vals);
                }
                Err(e) => {
                    ctx.checked();
                    ctx.fail("deserialize-failed", &key, format!("{}: round trip through serde_json::Value failed: {e}", c.name));
                }
            }
        }
    }
}


/// "What comes back holds nothing the document does not say." A document written for one color type and accepted by
/// another one (in a user's untagged enum, serde tries the listed types in order) is serde's business as long as the
/// accepting type found all of its components in the document: every number of the accepted value must be one of the
/// document's numbers (compared at `f32` width, each used once; which key it came from is not judged — a type is free
/// to know another type's field under an alias; a hue may differ by whole turns — a type is free to normalise). Full
/// opacity for a document without alpha is what the property itself allows. A component made up for a key the
/// document does not have is wrong data. Returns true if it failed.
fn nothing_made_up(ctx: &mut Ctx<'_>, c: &CaseDesc, key: &str, text: &str, which: &str, back_text: &str) -> bool {
    ctx.checked();
    let (orig, back) = (serde_json::from_str::<serde_json::Value>(text), serde_json::from_str::<serde_json::Value>(back_text));
    let (o, b) = match (orig, back) {
        (Ok(serde_json::Value::Object(o)), Ok(serde_json::Value::Object(b))) => (o, b),
        _ => return false, // not two objects: sequences and bare numbers carry no names to take the wrong way
    };
    let mut pool: Vec<f32> = o.values().filter_map(|x| x.as_f64()).map(|x| x as f32).collect();
    for (k, v) in &b {
        let Some(y) = v.as_f64().map(|y| y as f32) else { continue };
        if k == "alpha" && !o.contains_key("alpha") && y == 1.0 {
            continue;
        }
        let hit = pool.iter().position(|x| *x == y).or_else(|| {
            if k == "hue" {
                pool.iter().position(|x| {
                    let d = ((*x as f64) - (y as f64)).rem_euclid(360.0);
                    d.min(360.0 - d) < 1e-2
                })
            } else {
                None
            }
        });
        match hit {
            Some(i) => {
                pool.swap_remove(i);
            }
            None => {
                return ctx.fail(
                    "round-trip:color-read-as-another-color-type",
                    key,
                    format!("{}: written as {text}, accepted as {which} {back_text}: component `{k}` = {y} is nowhere in the document", c.name),
                );
            }
        }
    }
    false
}

/// The same question for every serializable color family, in no particular order.
fn cross_offer(ctx: &mut Ctx<'_>, c: &CaseDesc, key: &str, text: &str) {
    for (which, back_text) in cases::cross_read(text) {
        ctx.extra("documents-accepted-by-another-color-type", 1);
        if nothing_made_up(ctx, c, key, text, which, &back_text) {
            return;
        }
    }
}

fn note_presentation(ctx: &mut Ctx<'_>, c: &CaseDesc, pres: &Presentation) {
    if c.wrapper == Wrapper::None {
        return;
    }
    if pres.struct_as == StructAs::Seq && !pres.size_hint {
        ctx.probe("seq-presentation-without-size-hint");
    }
    if c.shape == Shape::Struct && pres.struct_as == StructAs::Map && pres.alpha_present {
        let n = c.fields.len();
        let pos = if pres.alpha_pos == 255 { n } else { pres.alpha_pos as usize % (n + 1) };
        ctx.probe(if pos == 0 { "alpha-key-first" } else if pos == n { "alpha-key-last" } else { "alpha-key-middle" });
        if matches!(pres.key_form, KeyForm::U64Index | KeyForm::U8Index | KeyForm::U32Index) {
            ctx.probe("index-key-equals-field-count");
        }
    }
    if pres.alpha_present {
        ctx.cell("key-form", match pres.key_form {
            KeyForm::BorrowedStr => "borrowed-str",
            KeyForm::TransientStr => "transient-str",
            KeyForm::OwnedString => "owned-string",
            KeyForm::BorrowedBytes => "borrowed-bytes",
            KeyForm::TransientBytes => "transient-bytes",
            KeyForm::ByteBuf => "byte-buf",
            KeyForm::U64Index => "u64-index",
            KeyForm::U8Index => "u8-index",
            KeyForm::U32Index => "u32-index",
        });
    }
}

/// What is wrong with the JSON text of a serialized color, if anything.
fn json_shape_problem(c: &CaseDesc, vals: &[f64], text: &str) -> Option<String> {
    // the text is pinned only where the property describes the shape: named-field colors (own fields, then
    // `alpha`, at one level, no metadata) and hues (a bare number); see `judge_shape` for the other shapes
    if !matches!(c.shape, Shape::Struct | Shape::Hue) {
        return None;
    }
    let nums: Vec<String> = vals[..c.nvals].iter().enumerate().map(|(j, v)| fmt_scalar(c, j, *v)).collect();
    let has_alpha = c.wrapper != Wrapper::None;
    let want = match c.shape {
        Shape::Hue => nums[0].clone(),
        Shape::Struct => {
            let mut body: Vec<String> = sent_fields(c, vals).iter().map(|(k, slot)| format!("\"{k}\":{}", nums[*slot])).collect();
            if has_alpha {
                body.push(format!("\"alpha\":{}", nums[c.nvals - 1]));
            }
            format!("{{{}}}", body.join(","))
        }
        Shape::TupleStruct | Shape::Tuple | Shape::Seq => format!("[{}]", nums.join(",")),
        Shape::UnitType => {
            if has_alpha {
                format!("[{}]", nums.join(","))
            } else {
                "null".to_string()
            }
        }
        Shape::Newtype => {
            if has_alpha {
                format!("[{}]", nums.join(","))
            } else {
                nums[0].clone()
            }
        }
        Shape::Unit => {
            if has_alpha {
                nums[0].clone()
            } else {
                "null".to_string()
            }
        }
    };
    if text == want {
        None
    } else {
        Some(format!("expected exactly {want}"))
    }
}
