//! The simulated format peer ("SimFormat").
//!
//! * `Rec` is a recording `serde::Serializer`: it turns the conversation that
//!   palette's serializer adapters hold with a format into a token tree, with
//!   the exact bits of every scalar and the *declared* lengths.
//! * `Replay` is a replaying `serde::Deserializer`: it presents a token tree to
//!   palette's deserializer adapters under a *presentation vector* — every
//!   choice a real self-describing or compact format is free to make (struct as
//!   map or as sequence, key form, key order, size hints, alpha present or
//!   absent).
//! * Both count the data-model calls they receive and can fail at the k-th one
//!   (`peer: error@call k`).

use serde::de::{self, DeserializeSeed, Deserializer, IntoDeserializer, MapAccess, SeqAccess, Visitor};
use serde::ser::{self, Serialize, Serializer};
use serde::{Deserialize as De, Serialize as Se};
use std::cell::Cell;
use std::fmt;

#[derive(Clone, Debug, PartialEq, Eq, Hash, Se, De)]
pub enum Tok {
    Struct { name: String, declared_len: usize, fields: Vec<(String, Tok)>, skipped: Vec<String> },
    TupleStruct { name: String, declared_len: usize, fields: Vec<Tok> },
    Newtype { name: String, inner: Box<Tok> },
    UnitStruct { name: String },
    Unit,
    Seq { declared_len: Option<usize>, items: Vec<Tok> },
    Tuple { declared_len: usize, items: Vec<Tok> },
    Map { declared_len: Option<usize>, entries: Vec<(Tok, Tok)> },
    F32(u32),
    F64(u64),
    U8(u8),
    U16(u16),
    U32(u32),
    U64(u64),
    I64(i64),
    Bool(bool),
    Str(String),
    /// `serialize_some` / `serialize_none`: formats such as RON write a present option differently from the bare value
    Some(Box<Tok>),
    None,
    Other(String),
}

impl Tok {
    pub fn kind(&self) -> &'static str {
        match self {
            Tok::Struct { .. } => "struct",
            Tok::TupleStruct { .. } => "tuple_struct",
            Tok::Newtype { .. } => "newtype_struct",
            Tok::UnitStruct { .. } => "unit_struct",
            Tok::Unit => "unit",
            Tok::Seq { .. } => "seq",
            Tok::Tuple { .. } => "tuple",
            Tok::Map { .. } => "map",
            Tok::F32(_) => "f32",
            Tok::F64(_) => "f64",
            Tok::U8(_) => "u8",
            Tok::U16(_) => "u16",
            Tok::U32(_) => "u32",
            Tok::U64(_) => "u64",
            Tok::I64(_) => "i64",
            Tok::Bool(_) => "bool",
            Tok::Str(_) => "str",
            Tok::Some(_) => "some",
            Tok::None => "none",
            Tok::Other(_) => "other",
        }
    }
    /// The scalar leaves of the tree, in order (as exact bit patterns widened to u64, tagged by kind).
    pub fn leaves(&self, out: &mut Vec<(u8, u64)>) {
        match self {
            Tok::Struct { fields, .. } => fields.iter().for_each(|(_, t)| t.leaves(out)),
            Tok::TupleStruct { fields, .. } => fields.iter().for_each(|t| t.leaves(out)),
            Tok::Newtype { inner, .. } | Tok::Some(inner) => inner.leaves(out),
            Tok::Seq { items, .. } | Tok::Tuple { items, .. } => items.iter().for_each(|t| t.leaves(out)),
            Tok::Map { entries, .. } => entries.iter().for_each(|(_, v)| v.leaves(out)),
            Tok::F32(b) => out.push((1, *b as u64)),
            Tok::F64(b) => out.push((2, *b)),
            Tok::U8(v) => out.push((3, *v as u64)),
            Tok::U16(v) => out.push((3, *v as u64)),
            Tok::U32(v) => out.push((3, *v as u64)),
            Tok::U64(v) => out.push((3, *v)),
            Tok::I64(v) => out.push((4, *v as u64)),
            _ => {}
        }
    }
    /// (declared length, elements sent) of the outermost container, where it declares one.
    pub fn declared_vs_sent(&self) -> Option<(usize, usize)> {
        match self {
            Tok::Struct { declared_len, fields, .. } => Some((*declared_len, fields.len())),
            Tok::TupleStruct { declared_len, fields, .. } => Some((*declared_len, fields.len())),
            Tok::Tuple { declared_len, items } => Some((*declared_len, items.len())),
            Tok::Seq { declared_len: Some(d), items } => Some((*d, items.len())),
            _ => None,
        }
    }
    pub fn is_scalar(&self) -> bool {
        matches!(self, Tok::F32(_) | Tok::F64(_) | Tok::U8(_) | Tok::U16(_) | Tok::U32(_) | Tok::U64(_) | Tok::I64(_))
    }
}

#[derive(Clone, Debug, PartialEq, Eq)]
pub struct SimError(pub String);

impl SimError {
    pub fn injected() -> Self {
        SimError("<injected peer error>".into())
    }
    pub fn is_injected(&self) -> bool {
        self.0 == "<injected peer error>"
    }
}

impl fmt::Display for SimError {
    fn fmt(&self, f: &mut fmt::Formatter<'_>) -> fmt::Result {
        f.write_str(&self.0)
    }
}
impl std::error::Error for SimError {}
impl ser::Error for SimError {
    fn custom<T: fmt::Display>(msg: T) -> Self {
        SimError(msg.to_string())
    }
}
impl de::Error for SimError {
    fn custom<T: fmt::Display>(msg: T) -> Self {
        SimError(msg.to_string())
    }
}

/// Call counter and planned failure shared by one conversation.
#[derive(Default)]
pub struct Peer {
    pub calls: Cell<usize>,
    pub fail_at: Cell<Option<usize>>,
    pub fired: Cell<bool>,
    /// index (in `calls`) of the call that carried the alpha value, if seen
    pub alpha_call: Cell<Option<usize>>,
    /// what the format answers to `is_human_readable` (true for every judged conversation)
    pub human_readable: Cell<bool>,
}

impl Peer {
    pub fn new(fail_at: Option<usize>) -> Self {
        Peer { calls: Cell::new(0), fail_at: Cell::new(fail_at), fired: Cell::new(false), alpha_call: Cell::new(None), human_readable: Cell::new(true) }
    }
    /// Count one data-model call; `Err` if this is the planned failing one.
    pub fn call(&self) -> Result<(), SimError> {
        let n = self.calls.get();
        self.calls.set(n + 1);
        if self.fail_at.get() == Some(n) {
            self.fired.set(true);
            return Err(SimError::injected());
        }
        Ok(())
    }
}

// ------------------------------------------------------------------ recording serializer

pub struct Rec<'p> {
    pub peer: &'p Peer,
}

pub struct RecStruct<'p> {
    peer: &'p Peer,
    name: String,
    declared_len: usize,
    fields: Vec<(String, Tok)>,
    skipped: Vec<String>,
}
pub struct RecTupleStruct<'p> {
    peer: &'p Peer,
    name: String,
    declared_len: usize,
    fields: Vec<Tok>,
}
pub struct RecSeq<'p> {
    peer: &'p Peer,
    declared_len: Option<usize>,
    items: Vec<Tok>,
    tuple: Option<usize>,
}
pub struct RecMap<'p> {
    peer: &'p Peer,
    declared_len: Option<usize>,
    entries: Vec<(Tok, Tok)>,
    pending: Option<Tok>,
}

macro_rules! rec_scalar {
    ($f:ident, $t:ty, |$v:ident| $tok:expr) => {
        fn $f(self, $v: $t) -> Result<Tok, SimError> {
            self.peer.call()?;
            Ok($tok)
        }
    };
}

impl<'p> Serializer for Rec<'p> {
    type Ok = Tok;
    type Error = SimError;
    type SerializeSeq = RecSeq<'p>;
    type SerializeTuple = RecSeq<'p>;
    type SerializeTupleStruct = RecTupleStruct<'p>;
    type SerializeTupleVariant = ser::Impossible<Tok, SimError>;
    type SerializeMap = RecMap<'p>;
    type SerializeStruct = RecStruct<'p>;
    type SerializeStructVariant = ser::Impossible<Tok, SimError>;

    rec_scalar!(serialize_bool, bool, |v| Tok::Bool(v));
    rec_scalar!(serialize_i8, i8, |v| Tok::I64(v as i64));
    rec_scalar!(serialize_i16, i16, |v| Tok::I64(v as i64));
    rec_scalar!(serialize_i32, i32, |v| Tok::I64(v as i64));
    rec_scalar!(serialize_i64, i64, |v| Tok::I64(v));
    rec_scalar!(serialize_u8, u8, |v| Tok::U8(v));
    rec_scalar!(serialize_u16, u16, |v| Tok::U16(v));
    rec_scalar!(serialize_u32, u32, |v| Tok::U32(v));
    rec_scalar!(serialize_u64, u64, |v| Tok::U64(v));
    rec_scalar!(serialize_f32, f32, |v| Tok::F32(v.to_bits()));
    rec_scalar!(serialize_f64, f64, |v| Tok::F64(v.to_bits()));
    rec_scalar!(serialize_char, char, |v| Tok::Str(v.to_string()));
    rec_scalar!(serialize_str, &str, |v| Tok::Str(v.to_string()));
    rec_scalar!(serialize_bytes, &[u8], |v| Tok::Other(format!("bytes{v:?}")));

    fn serialize_none(self) -> Result<Tok, SimError> {
        self.peer.call()?;
        Ok(Tok::None)
    }
    fn serialize_some<T: Serialize + ?Sized>(self, value: &T) -> Result<Tok, SimError> {
        self.peer.call()?;
        Ok(Tok::Some(Box::new(value.serialize(Rec { peer: self.peer })?)))
    }
    fn serialize_unit(self) -> Result<Tok, SimError> {
        self.peer.call()?;
        Ok(Tok::Unit)
    }
    fn serialize_unit_struct(self, name: &'static str) -> Result<Tok, SimError> {
        self.peer.call()?;
        Ok(Tok::UnitStruct { name: name.into() })
    }
    fn serialize_unit_variant(self, name: &'static str, _i: u32, variant: &'static str) -> Result<Tok, SimError> {
        self.peer.call()?;
        Ok(Tok::Other(format!("unit_variant {name}::{variant}")))
    }
    fn serialize_newtype_struct<T: Serialize + ?Sized>(self, name: &'static str, value: &T) -> Result<Tok, SimError> {
        self.peer.call()?;
        Ok(Tok::Newtype { name: name.into(), inner: Box::new(value.serialize(Rec { peer: self.peer })?) })
    }
    fn serialize_newtype_variant<T: Serialize + ?Sized>(self, name: &'static str, _i: u32, variant: &'static str, _value: &T) -> Result<Tok, SimError> {
        self.peer.call()?;
        Ok(Tok::Other(format!("newtype_variant {name}::{variant}")))
    }
    fn serialize_seq(self, len: Option<usize>) -> Result<RecSeq<'p>, SimError> {
        self.peer.call()?;
        Ok(RecSeq { peer: self.peer, declared_len: len, items: Vec::new(), tuple: None })
    }
    fn serialize_tuple(self, len: usize) -> Result<RecSeq<'p>, SimError> {
        self.peer.call()?;
        Ok(RecSeq { peer: self.peer, declared_len: Some(len), items: Vec::new(), tuple: Some(len) })
    }
    fn serialize_tuple_struct(self, name: &'static str, len: usize) -> Result<RecTupleStruct<'p>, SimError> {
        self.peer.call()?;
        Ok(RecTupleStruct { peer: self.peer, name: name.into(), declared_len: len, fields: Vec::new() })
    }
    fn serialize_tuple_variant(self, _n: &'static str, _i: u32, _v: &'static str, _l: usize) -> Result<Self::SerializeTupleVariant, SimError> {
        Err(SimError("SimFormat: tuple variants are not part of any color".into()))
    }
    fn serialize_map(self, len: Option<usize>) -> Result<RecMap<'p>, SimError> {
        self.peer.call()?;
        Ok(RecMap { peer: self.peer, declared_len: len, entries: Vec::new(), pending: None })
    }
    fn serialize_struct(self, name: &'static str, len: usize) -> Result<RecStruct<'p>, SimError> {
        self.peer.call()?;
        Ok(RecStruct { peer: self.peer, name: name.into(), declared_len: len, fields: Vec::new(), skipped: Vec::new() })
    }
    fn serialize_struct_variant(self, _n: &'static str, _i: u32, _v: &'static str, _l: usize) -> Result<Self::SerializeStructVariant, SimError> {
        Err(SimError("SimFormat: struct variants are not part of any color".into()))
    }
    fn is_human_readable(&self) -> bool {
        self.peer.human_readable.get()
    }
}

impl<'p> ser::SerializeStruct for RecStruct<'p> {
    type Ok = Tok;
    type Error = SimError;
    fn serialize_field<T: Serialize + ?Sized>(&mut self, key: &'static str, value: &T) -> Result<(), SimError> {
        self.peer.call()?;
        if key == "alpha" {
            self.peer.alpha_call.set(Some(self.peer.calls.get() - 1));
        }
        let t = value.serialize(Rec { peer: self.peer })?;
        self.fields.push((key.to_string(), t));
        Ok(())
    }
    fn skip_field(&mut self, key: &'static str) -> Result<(), SimError> {
        self.peer.call()?;
        self.skipped.push(key.to_string());
        Ok(())
    }
    fn end(self) -> Result<Tok, SimError> {
        self.peer.call()?;
        Ok(Tok::Struct { name: self.name, declared_len: self.declared_len, fields: self.fields, skipped: self.skipped })
    }
}

impl<'p> ser::SerializeTupleStruct for RecTupleStruct<'p> {
    type Ok = Tok;
    type Error = SimError;
    fn serialize_field<T: Serialize + ?Sized>(&mut self, value: &T) -> Result<(), SimError> {
        self.peer.call()?;
        let t = value.serialize(Rec { peer: self.peer })?;
        self.fields.push(t);
        Ok(())
    }
    fn end(self) -> Result<Tok, SimError> {
        self.peer.call()?;
        Ok(Tok::TupleStruct { name: self.name, declared_len: self.declared_len, fields: self.fields })
    }
}

impl<'p> ser::SerializeSeq for RecSeq<'p> {
    type Ok = Tok;
    type Error = SimError;
    fn serialize_element<T: Serialize + ?Sized>(&mut self, value: &T) -> Result<(), SimError> {
        self.peer.call()?;
        let t = value.serialize(Rec { peer: self.peer })?;
        self.items.push(t);
        Ok(())
    }
    fn end(self) -> Result<Tok, SimError> {
        self.peer.call()?;
        Ok(match self.tuple {
            Some(n) => Tok::Tuple { declared_len: n, items: self.items },
            None => Tok::Seq { declared_len: self.declared_len, items: self.items },
        })
    }
}

impl<'p> ser::SerializeTuple for RecSeq<'p> {
    type Ok = Tok;
    type Error = SimError;
    fn serialize_element<T: Serialize + ?Sized>(&mut self, value: &T) -> Result<(), SimError> {
        ser::SerializeSeq::serialize_element(self, value)
    }
    fn end(self) -> Result<Tok, SimError> {
        ser::SerializeSeq::end(self)
    }
}

impl<'p> ser::SerializeMap for RecMap<'p> {
    type Ok = Tok;
    type Error = SimError;
    fn serialize_key<T: Serialize + ?Sized>(&mut self, key: &T) -> Result<(), SimError> {
        self.peer.call()?;
        self.pending = Some(key.serialize(Rec { peer: self.peer })?);
        Ok(())
    }
    fn serialize_value<T: Serialize + ?Sized>(&mut self, value: &T) -> Result<(), SimError> {
        self.peer.call()?;
        let v = value.serialize(Rec { peer: self.peer })?;
        let k = self.pending.take().unwrap_or(Tok::Other("<value without key>".into()));
        self.entries.push((k, v));
        Ok(())
    }
    fn end(self) -> Result<Tok, SimError> {
        self.peer.call()?;
        Ok(Tok::Map { declared_len: self.declared_len, entries: self.entries })
    }
}

// ------------------------------------------------------------------ presentation

#[derive(Clone, Copy, Debug, PartialEq, Eq, Hash, Se, De)]
pub enum StructAs {
    Map,
    Seq,
}

#[derive(Clone, Copy, Debug, PartialEq, Eq, Hash, Se, De)]
pub enum KeyForm {
    /// `visit_borrowed_str` (serde_json::from_str, ron)
    BorrowedStr,
    /// `visit_str` (serde_json::from_reader)
    TransientStr,
    /// `visit_string` (serde_json::Value)
    OwnedString,
    /// `visit_borrowed_bytes`
    BorrowedBytes,
    /// `visit_bytes`
    TransientBytes,
    /// `visit_byte_buf`
    ByteBuf,
    /// field index as `visit_u64` (compact self-describing formats)
    U64Index,
    /// field index as `visit_u8` / `visit_u32`
    U8Index,
    U32Index,
}

pub const KEY_FORMS: [KeyForm; 9] = [
    KeyForm::BorrowedStr,
    KeyForm::TransientStr,
    KeyForm::OwnedString,
    KeyForm::BorrowedBytes,
    KeyForm::TransientBytes,
    KeyForm::ByteBuf,
    KeyForm::U64Index,
    KeyForm::U8Index,
    KeyForm::U32Index,
];

#[derive(Clone, Debug, PartialEq, Eq, Hash, Se, De)]
pub struct Presentation {
    pub struct_as: StructAs,
    pub key_form: KeyForm,
    /// where the alpha entry goes among the keys: position modulo (entries), after the other keys were permuted
    pub alpha_pos: u8,
    /// permutation of the non-alpha keys: 0 identity, 1 reversed, 2.. rotate by n-1
    pub order: u8,
    pub size_hint: bool,
    pub alpha_present: bool,
    /// an extra key the color does not know, at this position (None: no such key). Only with string-like keys.
    pub unknown_key_at: Option<u8>,
    /// how the peer answers `deserialize_option` on a value that was not written as an option:
    /// false = like JSON (any non-null value is `Some`), true = like RON (`ExpectedOption`)
    #[serde(default)]
    pub strict_option: bool,
    /// which foreign key `unknown_key_at` inserts: 0 `"comment"` with a string value (the only one that existed
    /// at first); 1.. near-misses of `alpha` with a NUMBER as value, which an adapter that compares keys sloppily
    /// would take for the alpha: `"Alpha"`, `"alph"`, `"alpha_"`, `"alphabet"`, `"ALPHA"`; under index keys the
    /// foreign key is the index one past alpha's
    #[serde(default)]
    pub unknown_key_kind: u8,
    /// the peer hands tuple-like values out as a sequence of exactly the length the visitor's side ASKED for
    /// (`deserialize_tuple(len)`, `deserialize_tuple_struct(_, len)`), as length-prefixed formats do. palette
    /// asks for the color's length + 1 there on purpose, so this is a presentation the unchanged tree supports
    /// (unlike `limit_to_declared_fields`, where it cannot).
    #[serde(default)]
    pub honour_requested_len: bool,
    /// NOT a presentation the check judges (DESIGN §4.4): a bincode-style peer that hands a struct out as a
    /// sequence of exactly `fields.len()` elements. Used only for the "observed, not judged" note in the evidence.
    #[serde(default)]
    pub limit_to_declared_fields: bool,
    /// the peer is a self-describing *binary* format (MessagePack, CBOR): everything as above, but it answers
    /// `is_human_readable` with false. No palette type looks at that on the current tree.
    #[serde(default)]
    pub binary: bool,
}

impl Presentation {
    pub fn plain() -> Self {
        Presentation { struct_as: StructAs::Map, key_form: KeyForm::BorrowedStr, alpha_pos: 255, order: 0, size_hint: true, alpha_present: true, unknown_key_at: None, strict_option: false, unknown_key_kind: 0, honour_requested_len: false, limit_to_declared_fields: false, binary: false }
    }
}

pub const FOREIGN_KEYS: [&str; 6] = ["comment", "Alpha", "alph", "alpha_", "alphabet", "ALPHA"];
/// the value that travels under a near-miss key (it must never become the alpha)
pub static FOREIGN_NUMBER: Tok = Tok::F64(0x3FC0_0000_0000_0000); // 0.125

// ------------------------------------------------------------------ replaying deserializer

pub struct Replay<'de, 'p> {
    pub tok: &'de Tok,
    pub pres: &'p Presentation,
    pub peer: &'p Peer,
    /// true only for the outermost value (the presentation applies to the color's own container)
    pub top: bool,
}

impl<'de, 'p> Replay<'de, 'p> {
    fn child(&self, tok: &'de Tok) -> Replay<'de, 'p> {
        Replay { tok, pres: self.pres, peer: self.peer, top: false }
    }

    fn scalar<V: Visitor<'de>>(&self, visitor: V) -> Result<V::Value, SimError> {
        match self.tok {
            Tok::F32(b) => visitor.visit_f32(f32::from_bits(*b)),
            Tok::F64(b) => visitor.visit_f64(f64::from_bits(*b)),
            Tok::U8(v) => visitor.visit_u8(*v),
            Tok::U16(v) => visitor.visit_u16(*v),
            Tok::U32(v) => visitor.visit_u32(*v),
            Tok::U64(v) => visitor.visit_u64(*v),
            Tok::I64(v) => visitor.visit_i64(*v),
            Tok::Bool(v) => visitor.visit_bool(*v),
            Tok::Str(s) => visitor.visit_borrowed_str(s),
            Tok::Unit => visitor.visit_unit(),
            Tok::Newtype { inner, .. } => self.child(inner).scalar(visitor),
            Tok::Some(inner) if !self.pres.strict_option => self.child(inner).scalar(visitor),
            other => Err(SimError(format!("SimFormat: expected a scalar, the document has a {}", other.kind()))),
        }
    }

    /// The entries (key name, value) of the struct-like token, in document order.
    fn entries(&self) -> Result<(Vec<(&'de str, &'de Tok)>, usize), SimError> {
        match self.tok {
            Tok::Struct { fields, .. } => Ok((fields.iter().map(|(k, v)| (k.as_str(), v)).collect(), fields.len())),
            other => Err(SimError(format!("SimFormat: expected a struct, the document has a {}", other.kind()))),
        }
    }

    fn items(&self) -> Result<Vec<&'de Tok>, SimError> {
        match self.tok {
            Tok::Struct { fields, .. } => Ok(fields.iter().map(|(_, v)| v).collect()),
            Tok::TupleStruct { fields, .. } => Ok(fields.iter().collect()),
            Tok::Seq { items, .. } | Tok::Tuple { items, .. } => Ok(items.iter().collect()),
            Tok::Newtype { inner, .. } => Ok(vec![&**inner]),
            Tok::UnitStruct { .. } | Tok::Unit => Ok(vec![]),
            other => Err(SimError(format!("SimFormat: expected a sequence, the document has a {}", other.kind()))),
        }
    }

    fn present_seq<V: Visitor<'de>>(&self, visitor: V) -> Result<V::Value, SimError> {
        let mut items = self.items()?;
        if self.top && !self.pres.alpha_present {
            // the document was written without alpha: drop the last element of an alpha-carrying sequence
            if let Some(n) = alpha_index(self.tok) {
                items.remove(n);
            }
        }
        let hint = self.top && self.pres.size_hint || !self.top;
        let n = items.len();
        let consumed = Cell::new(0usize);
        let out = visitor.visit_seq(SeqReplay { items, pos: &consumed, parent: self, hint })?;
        // like serde_json's `end_seq`: a visitor that leaves elements behind is an error of the conversation
        if consumed.get() < n {
            return Err(SimError(format!("SimFormat: trailing elements: the visitor consumed {} of {n} sequence elements", consumed.get())));
        }
        Ok(out)
    }

    /// `present_seq`, or — under `honour_requested_len` — exactly `len` elements of the document: what the
    /// document holds beyond the requested length is never shown (and a shorter document ends early).
    fn present_seq_limited<V: Visitor<'de>>(&self, visitor: V, len: usize) -> Result<V::Value, SimError> {
        if !(self.top && self.pres.honour_requested_len) || !matches!(self.tok, Tok::TupleStruct { .. } | Tok::Tuple { .. } | Tok::Newtype { .. } | Tok::UnitStruct { .. } | Tok::Unit) {
            return self.present_seq(visitor);
        }
        let mut items = self.items()?;
        if !self.pres.alpha_present {
            if let Some(n) = alpha_index(self.tok) {
                items.remove(n);
            }
        }
        items.truncate(len);
        let consumed = Cell::new(0usize);
        // a length-prefixed format does not complain about elements the visitor leaves: it never had more
        visitor.visit_seq(SeqReplay { items, pos: &consumed, parent: self, hint: true })
    }

    fn present_map<V: Visitor<'de>>(&self, fields: &'static [&'static str], visitor: V) -> Result<V::Value, SimError> {
        let (entries, _) = self.entries()?;
        // split off alpha (the adapters' extra field is the one named "alpha" that the color itself does not declare)
        let alpha_at = entries.iter().position(|(k, _)| *k == "alpha" && !fields.contains(&"alpha"));
        let mut others: Vec<(usize, &'de str, &'de Tok)> = entries.iter().enumerate().filter(|(i, _)| Some(*i) != alpha_at).map(|(i, (k, v))| (i, *k, *v)).collect();
        let n = others.len();
        if self.top && n > 1 {
            match self.pres.order {
                0 => {}
                1 => others.reverse(),
                r => others.rotate_left((r as usize - 1) % n),
            }
        }
        let mut keyed: Vec<Entry<'de>> = others
            .into_iter()
            .map(|(_, k, v)| {
                let index = fields.iter().position(|f| *f == k).unwrap_or(usize::MAX);
                Entry { name: k, index, value: Some(v) }
            })
            .collect();
        if let Some(a) = alpha_at {
            if !self.top || self.pres.alpha_present {
                let pos = if self.top { (self.pres.alpha_pos as usize).min(keyed.len()) } else { keyed.len() };
                let pos = if self.top && self.pres.alpha_pos != 255 { self.pres.alpha_pos as usize % (keyed.len() + 1) } else { pos };
                keyed.insert(pos, Entry { name: "alpha", index: fields.len(), value: Some(entries[a].1) });
            }
        }
        let string_keys = !matches!(self.pres.key_form, KeyForm::U64Index | KeyForm::U8Index | KeyForm::U32Index);
        if self.top {
            if let Some(at) = self.pres.unknown_key_at {
                let pos = at as usize % (keyed.len() + 1);
                let kind = self.pres.unknown_key_kind as usize % FOREIGN_KEYS.len();
                if string_keys {
                    let value = if kind == 0 { None } else { Some(&FOREIGN_NUMBER) };
                    keyed.insert(pos, Entry { name: FOREIGN_KEYS[kind], index: usize::MAX, value });
                } else if kind != 0 && !fields.is_empty() {
                    // index keys: one past the index alpha travels under
                    keyed.insert(pos, Entry { name: "<index one past alpha>", index: fields.len() + 1, value: Some(&FOREIGN_NUMBER) });
                }
            }
        }
        let hint = self.top && self.pres.size_hint || !self.top;
        let n = keyed.len();
        let consumed = Cell::new(0usize);
        let out = visitor.visit_map(MapReplay { entries: keyed, pos: &consumed, parent: self, hint, pending: None })?;
        // like serde_json's `end_map`: a visitor that stops before the last entry is an error of the conversation
        if consumed.get() < n {
            return Err(SimError(format!("SimFormat: trailing entries: the visitor consumed {} of {n} map entries", consumed.get())));
        }
        Ok(out)
    }
}

struct Entry<'de> {
    name: &'de str,
    index: usize,
    /// `None`: an unknown key whose value is a string the color ignores
    value: Option<&'de Tok>,
}

/// Position of the alpha element in a sequence-like alpha-carrying token (always last).
fn alpha_index(tok: &Tok) -> Option<usize> {
    match tok {
        Tok::Struct { fields, .. } => fields.iter().position(|(k, _)| k == "alpha"),
        Tok::TupleStruct { fields, .. } if !fields.is_empty() => Some(fields.len() - 1),
        Tok::Seq { items, .. } | Tok::Tuple { items, .. } if !items.is_empty() => Some(items.len() - 1),
        _ => None,
    }
}

macro_rules! replay_scalar {
    ($($f:ident),+) => {$(
        fn $f<V: Visitor<'de>>(self, visitor: V) -> Result<V::Value, SimError> {
            self.peer.call()?;
            self.scalar(visitor)
        }
    )+};
}

impl<'de, 'p> Deserializer<'de> for Replay<'de, 'p> {
    type Error = SimError;

    fn deserialize_any<V: Visitor<'de>>(self, visitor: V) -> Result<V::Value, SimError> {
        self.peer.call()?;
        match self.tok {
            Tok::Struct { .. } => match self.pres.struct_as {
                StructAs::Map if self.top => self.present_map(&[], visitor),
                _ => self.present_seq(visitor),
            },
            Tok::TupleStruct { .. } | Tok::Seq { .. } | Tok::Tuple { .. } => self.present_seq(visitor),
            _ => self.scalar(visitor),
        }
    }

    replay_scalar!(
        deserialize_bool,
        deserialize_i8,
        deserialize_i16,
        deserialize_i32,
        deserialize_i64,
        deserialize_u8,
        deserialize_u16,
        deserialize_u32,
        deserialize_u64,
        deserialize_f32,
        deserialize_f64,
        deserialize_char,
        deserialize_str,
        deserialize_string,
        deserialize_bytes,
        deserialize_byte_buf,
        deserialize_identifier
    );

    fn deserialize_option<V: Visitor<'de>>(self, visitor: V) -> Result<V::Value, SimError> {
        self.peer.call()?;
        match self.tok {
            Tok::None => visitor.visit_none(),
            Tok::Some(inner) => visitor.visit_some(self.child(inner)),
            other if self.pres.strict_option => Err(SimError(format!("SimFormat: expected an option, the document has a {}", other.kind()))),
            _ => visitor.visit_some(self),
        }
    }
    fn deserialize_unit<V: Visitor<'de>>(self, visitor: V) -> Result<V::Value, SimError> {
        self.peer.call()?;
        visitor.visit_unit()
    }
    fn deserialize_unit_struct<V: Visitor<'de>>(self, _name: &'static str, visitor: V) -> Result<V::Value, SimError> {
        self.peer.call()?;
        visitor.visit_unit()
    }
    fn deserialize_newtype_struct<V: Visitor<'de>>(self, _name: &'static str, visitor: V) -> Result<V::Value, SimError> {
        self.peer.call()?;
        match self.tok {
            // a self-describing format hands the inner value to visit_newtype_struct
            Tok::Newtype { inner, .. } => visitor.visit_newtype_struct(self.child(inner)),
            _ => visitor.visit_newtype_struct(Replay { tok: self.tok, pres: self.pres, peer: self.peer, top: false }),
        }
    }
    fn deserialize_seq<V: Visitor<'de>>(self, visitor: V) -> Result<V::Value, SimError> {
        self.peer.call()?;
        self.present_seq(visitor)
    }
    fn deserialize_tuple<V: Visitor<'de>>(self, len: usize, visitor: V) -> Result<V::Value, SimError> {
        self.peer.call()?;
        // by default not length-limited: the peer is self-describing and presents what the document holds
        self.present_seq_limited(visitor, len)
    }
    fn deserialize_tuple_struct<V: Visitor<'de>>(self, _name: &'static str, len: usize, visitor: V) -> Result<V::Value, SimError> {
        self.peer.call()?;
        self.present_seq_limited(visitor, len)
    }
    fn deserialize_map<V: Visitor<'de>>(self, visitor: V) -> Result<V::Value, SimError> {
        self.peer.call()?;
        self.present_map(&[], visitor)
    }
    fn deserialize_struct<V: Visitor<'de>>(self, _name: &'static str, fields: &'static [&'static str], visitor: V) -> Result<V::Value, SimError> {
        self.peer.call()?;
        if self.top && self.pres.limit_to_declared_fields {
            // observation only: no trailing-element check, the peer simply stops after `fields.len()` elements
            let mut items = self.items()?;
            items.truncate(fields.len());
            let consumed = Cell::new(0usize);
            return visitor.visit_seq(SeqReplay { items, pos: &consumed, parent: &self, hint: true });
        }
        match (self.tok, self.pres.struct_as, self.top) {
            (Tok::Struct { .. }, StructAs::Map, _) | (Tok::Struct { .. }, _, false) => self.present_map(fields, visitor),
            _ => self.present_seq(visitor),
        }
    }
    fn deserialize_enum<V: Visitor<'de>>(self, _n: &'static str, _v: &'static [&'static str], _visitor: V) -> Result<V::Value, SimError> {
        Err(SimError("SimFormat: enums are not part of any color".into()))
    }
    fn deserialize_ignored_any<V: Visitor<'de>>(self, visitor: V) -> Result<V::Value, SimError> {
        self.peer.call()?;
        visitor.visit_unit()
    }
    fn is_human_readable(&self) -> bool {
        self.peer.human_readable.get()
    }
}

struct SeqReplay<'a, 'de, 'p> {
    items: Vec<&'de Tok>,
    pos: &'a Cell<usize>,
    parent: &'a Replay<'de, 'p>,
    hint: bool,
}

impl<'a, 'de, 'p> SeqAccess<'de> for SeqReplay<'a, 'de, 'p> {
    type Error = SimError;
    fn next_element_seed<T: DeserializeSeed<'de>>(&mut self, seed: T) -> Result<Option<T::Value>, SimError> {
        self.parent.peer.call()?;
        if self.pos.get() >= self.items.len() {
            return Ok(None);
        }
        let tok = self.items[self.pos.get()];
        self.pos.set(self.pos.get() + 1);
        seed.deserialize(self.parent.child(tok)).map(Some)
    }
    fn size_hint(&self) -> Option<usize> {
        if self.hint {
            Some(self.items.len() - self.pos.get())
        } else {
            None
        }
    }
}

struct MapReplay<'a, 'de, 'p> {
    entries: Vec<Entry<'de>>,
    pos: &'a Cell<usize>,
    parent: &'a Replay<'de, 'p>,
    hint: bool,
    pending: Option<Option<&'de Tok>>,
}

struct KeyDe<'de> {
    name: &'de str,
    index: usize,
    form: KeyForm,
}

impl<'de> Deserializer<'de> for KeyDe<'de> {
    type Error = SimError;
    fn deserialize_any<V: Visitor<'de>>(self, visitor: V) -> Result<V::Value, SimError> {
        let index_form = matches!(self.form, KeyForm::U64Index | KeyForm::U8Index | KeyForm::U32Index);
        if index_form && self.index == usize::MAX {
            return Err(SimError(format!("SimFormat: the document's key {:?} has no field index", self.name)));
        }
        match self.form {
            KeyForm::BorrowedStr => visitor.visit_borrowed_str(self.name),
            KeyForm::TransientStr => {
                let tmp = self.name.to_string();
                visitor.visit_str(&tmp)
            }
            KeyForm::OwnedString => visitor.visit_string(self.name.to_string()),
            KeyForm::BorrowedBytes => visitor.visit_borrowed_bytes(self.name.as_bytes()),
            KeyForm::TransientBytes => {
                let tmp = self.name.as_bytes().to_vec();
                visitor.visit_bytes(&tmp)
            }
            KeyForm::ByteBuf => visitor.visit_byte_buf(self.name.as_bytes().to_vec()),
            KeyForm::U64Index => visitor.visit_u64(self.index as u64),
            KeyForm::U8Index => visitor.visit_u8(self.index as u8),
            KeyForm::U32Index => visitor.visit_u32(self.index as u32),
        }
    }
    serde::forward_to_deserialize_any! {
        bool i8 i16 i32 i64 i128 u8 u16 u32 u64 u128 f32 f64 char str string bytes byte_buf option unit
        unit_struct newtype_struct seq tuple tuple_struct map struct enum identifier ignored_any
    }
}

impl<'a, 'de, 'p> MapAccess<'de> for MapReplay<'a, 'de, 'p> {
    type Error = SimError;
    fn next_key_seed<K: DeserializeSeed<'de>>(&mut self, seed: K) -> Result<Option<K::Value>, SimError> {
        self.parent.peer.call()?;
        if self.pos.get() >= self.entries.len() {
            return Ok(None);
        }
        let e = &self.entries[self.pos.get()];
        self.pos.set(self.pos.get() + 1);
        self.pending = Some(e.value);
        if e.name == "alpha" {
            self.parent.peer.alpha_call.set(Some(self.parent.peer.calls.get() - 1));
        }
        seed.deserialize(KeyDe { name: e.name, index: e.index, form: self.parent.pres.key_form }).map(Some)
    }
    fn next_value_seed<V: DeserializeSeed<'de>>(&mut self, seed: V) -> Result<V::Value, SimError> {
        self.parent.peer.call()?;
        match self.pending.take() {
            Some(Some(tok)) => seed.deserialize(self.parent.child(tok)),
            Some(None) => seed.deserialize("ignored by the color".into_deserializer()),
            None => Err(SimError("SimFormat: next_value before next_key".into())),
        }
    }
    fn size_hint(&self) -> Option<usize> {
        if self.hint {
            Some(self.entries.len() - self.pos.get())
        } else {
            None
        }
    }
}
