//! (Own copy per world: a renamed or removed palette type must only stop the worlds that use it.)
//! Generic aliases `XC<T>` = "color type X with component (or collection) type T".

use palette::cam16::{Cam16UcsJab, Cam16UcsJmh};
use palette::encoding::Srgb;
use palette::lms::{matrix::VonKries, Lms};
use palette::white_point::D65;
use palette::{
    luma::Luma, Hsl, Hsluv, Hsv, Hwb, Lab, Lch, Lchuv, Luv, Okhsl, Okhsv, Okhwb, Oklab, Oklch, Xyz, Yxy,
};

pub type RgbC<T> = palette::rgb::Rgb<Srgb, T>;
pub type LumaC<T> = Luma<Srgb, T>;
pub type XyzC<T> = Xyz<D65, T>;
pub type YxyC<T> = Yxy<D65, T>;
pub type LabC<T> = Lab<D65, T>;
pub type LuvC<T> = Luv<D65, T>;
pub type OklabC<T> = Oklab<T>;
pub type LmsC<T> = Lms<VonKries, T>;
pub type Cam16UcsJabC<T> = Cam16UcsJab<T>;
pub type HslC<T> = Hsl<Srgb, T>;
pub type HsvC<T> = Hsv<Srgb, T>;
pub type HwbC<T> = Hwb<Srgb, T>;
pub type HsluvC<T> = Hsluv<D65, T>;
pub type LchC<T> = Lch<D65, T>;
pub type LchuvC<T> = Lchuv<D65, T>;
pub type OklchC<T> = Oklch<T>;
pub type OkhslC<T> = Okhsl<T>;
pub type OkhsvC<T> = Okhsv<T>;
pub type OkhwbC<T> = Okhwb<T>;
pub type Cam16UcsJmhC<T> = Cam16UcsJmh<T>;
