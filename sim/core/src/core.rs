//! Simulator core shared by all worlds: execution context (event log, fault and
//! probe counters, oracle verdicts), the parallel batch runner, the determinism
//! self-test, the minimiser, replay files, known findings and evidence.
//!
//! Nothing in here draws randomness or reads a clock while a plan executes;
//! wall-clock is read only by the batch runner for reporting and for the
//! safety cap.

use crate::rng::{run_seed, Fnv, Rng};
use serde::{de::DeserializeOwned, Deserialize, Serialize};
use serde_json::{json, Value};
use std::cell::RefCell;
use std::collections::{BTreeMap, BTreeSet, HashMap, HashSet};
use std::fmt::Write as _;
use std::hash::{BuildHasherDefault, Hash, Hasher};
use std::path::{Path, PathBuf};
use std::sync::atomic::{AtomicBool, AtomicU64, Ordering};
use std::sync::Mutex;
use std::time::Instant;

pub const DEFAULT_SEED: u64 = 20260926;

#[derive(Clone, Copy, Debug, PartialEq, Eq)]
pub enum Tier {
    Quick,
    Thorough,
}

impl Tier {
    pub fn name(self) -> &'static str {
        match self {
            Tier::Quick => "quick",
            Tier::Thorough => "thorough",
        }
    }
}

// ---------------------------------------------------------------------------
// deterministic hashing (never std's RandomState)
// ---------------------------------------------------------------------------

#[derive(Default, Clone, Copy)]
pub struct FnvHasher(Fnv);

impl Hasher for FnvHasher {
    fn finish(&self) -> u64 {
        self.0.finish()
    }
    fn write(&mut self, bytes: &[u8]) {
        self.0.bytes(bytes)
    }
}

pub type DetSet<T> = HashSet<T, BuildHasherDefault<FnvHasher>>;
pub type DetMap<K, V> = HashMap<K, V, BuildHasherDefault<FnvHasher>>;

pub fn det_hash<T: Hash + ?Sized>(t: &T) -> u64 {
    let mut h = FnvHasher::default();
    t.hash(&mut h);
    h.finish()
}

// ---------------------------------------------------------------------------
// panics
// ---------------------------------------------------------------------------

/// Payload of every panic the harness injects. Anything else caught by
/// `catch_unwind` is a panic of the code under test (or of a std contract).
#[derive(Debug, Clone, Copy, PartialEq, Eq)]
pub struct InjectedPanic(pub u32);

thread_local! {
    static LAST_PANIC: RefCell<Option<String>> = const { RefCell::new(None) };
}

pub fn install_panic_hook() {
    std::panic::set_hook(Box::new(|info| {
        // keep the last three path components only: the log must not depend on $HOME
        let loc = info
            .location()
            .map(|l| {
                let parts: Vec<&str> = l.file().split('/').collect();
                let tail = parts[parts.len().saturating_sub(3)..].join("/");
                format!("{}:{}", tail, l.line())
            })
            .unwrap_or_default();
        let msg = if let Some(s) = info.payload().downcast_ref::<&str>() {
            (*s).to_string()
        } else if let Some(s) = info.payload().downcast_ref::<String>() {
            s.clone()
        } else if info.payload().downcast_ref::<InjectedPanic>().is_some() {
            "<injected>".to_string()
        } else {
            "<non-string payload>".to_string()
        };
        LAST_PANIC.with(|p| *p.borrow_mut() = Some(format!("{msg} @ {loc}")));
    }));
}

pub fn take_last_panic() -> String {
    LAST_PANIC.with(|p| p.borrow_mut().take()).unwrap_or_else(|| "<unknown panic>".into())
}

pub enum Caught<T> {
    Ok(T),
    Injected(u32),
    Foreign(String),
}

impl<T> Caught<T> {
    pub fn map<R>(self, f: impl FnOnce(T) -> R) -> Caught<R> {
        match self {
            Caught::Ok(v) => Caught::Ok(f(v)),
            Caught::Injected(c) => Caught::Injected(c),
            Caught::Foreign(m) => Caught::Foreign(m),
        }
    }
}

/// Run `f`, classify a panic as injected (marker payload) or foreign.
pub fn catch<T>(f: impl FnOnce() -> T) -> Caught<T> {
    match std::panic::catch_unwind(std::panic::AssertUnwindSafe(f)) {
        Ok(v) => Caught::Ok(v),
        Err(payload) => {
            let msg = take_last_panic();
            if let Some(m) = payload.downcast_ref::<InjectedPanic>() {
                Caught::Injected(m.0)
            } else {
                // Sanitise: strip absolute registry paths so logs do not depend on $HOME.
                Caught::Foreign(msg)
            }
        }
    }
}

pub fn inject_panic(code: u32) -> ! {
    std::panic::panic_any(InjectedPanic(code))
}

// ---------------------------------------------------------------------------
// violations, known findings
// ---------------------------------------------------------------------------

#[derive(Clone, Debug, Serialize, Deserialize, PartialEq, Eq)]
pub struct Violation {
    /// Oracle id + operation kind; minimisation keeps candidates with the same class.
    pub class: String,
    /// Call-site key, matched against `known_findings.json`.
    pub key: String,
    pub detail: String,
}

#[derive(Clone, Debug, Deserialize)]
pub struct KnownEntry {
    pub property: String,
    pub status: String,
    pub key: String,
    #[serde(default)]
    pub commit: Option<String>,
    pub what: String,
}

#[derive(Clone, Debug, Default)]
pub struct Known {
    pub entries: Vec<KnownEntry>,
}

impl Known {
    pub fn load(path: &Path) -> Result<Known, String> {
        if !path.exists() {
            return Ok(Known::default());
        }
        let text = std::fs::read_to_string(path).map_err(|e| format!("{}: {e}", path.display()))?;
        let v: Value = serde_json::from_str(&text).map_err(|e| format!("{}: {e}", path.display()))?;
        let arr = v.get("findings").cloned().unwrap_or(Value::Array(vec![]));
        let entries: Vec<KnownEntry> =
            serde_json::from_value(arr).map_err(|e| format!("{}: {e}", path.display()))?;
        Ok(Known { entries })
    }

    /// An *open* entry for this property whose key equals the violation's key.
    pub fn open_match(&self, property: &str, key: &str) -> Option<&KnownEntry> {
        self.entries
            .iter()
            .find(|e| e.status == "open" && e.property == property && e.key == key)
    }
}

// ---------------------------------------------------------------------------
// per-run context
// ---------------------------------------------------------------------------

#[derive(Default, Clone)]
pub struct Stats {
    pub faults: BTreeMap<&'static str, u64>,
    pub probes: BTreeMap<&'static str, u64>,
    pub grid: BTreeMap<(&'static str, &'static str), u64>,
    pub states: DetSet<u64>,
    pub transitions: DetSet<u64>,
    pub steps: u64,
    pub oracle_checks: u64,
    pub known_hits: BTreeMap<String, u64>,
    pub extra: BTreeMap<&'static str, u64>,
}

impl Stats {
    pub fn merge(&mut self, other: Stats) {
        for (k, v) in other.faults {
            *self.faults.entry(k).or_default() += v;
        }
        for (k, v) in other.probes {
            *self.probes.entry(k).or_default() += v;
        }
        for (k, v) in other.grid {
            *self.grid.entry(k).or_default() += v;
        }
        for (k, v) in other.known_hits {
            *self.known_hits.entry(k).or_default() += v;
        }
        for (k, v) in other.extra {
            *self.extra.entry(k).or_default() += v;
        }
        self.states.extend(other.states);
        self.transitions.extend(other.transitions);
        self.steps += other.steps;
        self.oracle_checks += other.oracle_checks;
    }
}

pub struct Ctx<'a> {
    pub property: &'static str,
    pub stats: &'a mut Stats,
    pub known: &'a Known,
    pub violation: Option<Violation>,
    /// Steps that changed state and oracle comparisons made in *this* run.
    pub run_state_changes: u64,
    pub run_oracle_checks: u64,
    digest: Fnv,
    buf: String,
    pub text: Option<Vec<String>>,
    last_state: u64,
}

impl<'a> Ctx<'a> {
    pub fn new(property: &'static str, stats: &'a mut Stats, known: &'a Known, verbose: bool) -> Self {
        Ctx {
            property,
            stats,
            known,
            violation: None,
            run_state_changes: 0,
            run_oracle_checks: 0,
            digest: Fnv::default(),
            buf: String::with_capacity(256),
            text: if verbose { Some(Vec::new()) } else { None },
            last_state: 0,
        }
    }

    /// Append one line to the event log. The log never contains addresses,
    /// thread ids or times: only offsets, values and equalities.
    #[inline]
    pub fn ev(&mut self, args: std::fmt::Arguments<'_>) {
        self.buf.clear();
        let _ = self.buf.write_fmt(args);
        self.digest.bytes(self.buf.as_bytes());
        self.digest.bytes(b"\n");
        if let Some(t) = self.text.as_mut() {
            t.push(self.buf.clone());
        }
    }

    pub fn digest(&self) -> u64 {
        self.digest.finish()
    }

    #[inline]
    pub fn step(&mut self) {
        self.stats.steps += 1;
    }

    #[inline]
    pub fn changed(&mut self) {
        self.run_state_changes += 1;
    }

    #[inline]
    pub fn checked(&mut self) {
        self.run_oracle_checks += 1;
        self.stats.oracle_checks += 1;
    }

    #[inline]
    pub fn fired(&mut self, kind: &'static str) {
        *self.stats.faults.entry(kind).or_default() += 1;
    }

    #[inline]
    pub fn probe(&mut self, name: &'static str) {
        *self.stats.probes.entry(name).or_default() += 1;
    }

    #[inline]
    pub fn cell(&mut self, a: &'static str, b: &'static str) {
        *self.stats.grid.entry((a, b)).or_default() += 1;
    }

    #[inline]
    pub fn extra(&mut self, name: &'static str, n: u64) {
        *self.stats.extra.entry(name).or_default() += n;
    }

    /// Record an abstract state; the pair (previous, this) is a transition.
    #[inline]
    pub fn state<T: Hash>(&mut self, t: &T) {
        let h = det_hash(t);
        self.stats.states.insert(h);
        let mut f = Fnv::default();
        f.u64(self.last_state);
        f.u64(h);
        self.stats.transitions.insert(f.finish());
        self.last_state = h;
    }

    /// Report a failed oracle. Returns `true` if execution of this plan must
    /// stop (a new violation), `false` if it matched an open known finding and
    /// the run goes on looking for something else.
    pub fn fail(&mut self, class: &str, key: &str, detail: String) -> bool {
        if let Some(k) = self.known.open_match(self.property, key) {
            *self.stats.known_hits.entry(k.key.clone()).or_default() += 1;
            self.ev(format_args!("known-finding key={key}"));
            return false;
        }
        self.ev(format_args!("VIOLATION class={class} key={key} :: {detail}"));
        if self.violation.is_none() {
            self.violation = Some(Violation {
                class: class.to_string(),
                key: key.to_string(),
                detail,
            });
        }
        true
    }

    pub fn failed(&self) -> bool {
        self.violation.is_some()
    }
}

#[macro_export]
macro_rules! ev {
    ($ctx:expr, $($arg:tt)*) => {
        $ctx.ev(format_args!($($arg)*))
    };
}

// ---------------------------------------------------------------------------
// worlds
// ---------------------------------------------------------------------------

pub struct WorldInfo {
    pub rule: &'static str,
    pub state_measure: &'static str,
    pub assumptions: Vec<&'static str>,
    pub real: Vec<&'static str>,
    pub stub: Vec<&'static str>,
    pub expected_probes: Vec<&'static str>,
    pub expected_faults: Vec<&'static str>,
    pub time_note: &'static str,
}

pub trait World: Sync {
    type Plan: Serialize + DeserializeOwned + Clone + Send + Sync + Hash;

    fn id(&self) -> &'static str;
    /// Number of enumerated (non-random) plans at the front of the index space.
    fn enumerated(&self, _tier: Tier) -> u64 {
        0
    }
    /// Default number of seeded random plans after the enumerated ones.
    fn random_runs(&self, tier: Tier) -> u64;
    /// Build plan number `index`. For `index < enumerated()` the plan is the
    /// index-th element of a finite enumeration and `rng` is unused.
    fn plan(&self, index: u64, rng: &mut Rng, tier: Tier) -> Self::Plan;
    fn execute(&self, plan: &Self::Plan, ctx: &mut Ctx<'_>);
    /// Simpler variants of `plan`, most aggressive first.
    fn shrink(&self, plan: &Self::Plan) -> Vec<Self::Plan>;
    fn info(&self) -> WorldInfo;
    /// Extra world-specific evidence (merged into `coverage`).
    fn extra_evidence(&self, _stats: &Stats) -> Value {
        json!({})
    }
}

/// ddmin-style candidates for a list: drop halves, quarters, ..., single items.
pub fn shrink_list<T: Clone>(xs: &[T]) -> Vec<Vec<T>> {
    let n = xs.len();
    let mut out = Vec::new();
    if n == 0 {
        return out;
    }
    let mut chunk = n;
    while chunk >= 1 {
        let mut start = 0;
        while start < n {
            let end = (start + chunk).min(n);
            if !(start == 0 && end == n && n > 1 && chunk == n) || n == 1 {
                let mut v = Vec::with_capacity(n - (end - start));
                v.extend_from_slice(&xs[..start]);
                v.extend_from_slice(&xs[end..]);
                out.push(v);
            }
            start = end;
        }
        if chunk == 1 {
            break;
        }
        chunk = (chunk + 1) / 2;
        if out.len() > 400 {
            break;
        }
    }
    // also: drop everything
    if n > 1 {
        out.insert(0, Vec::new());
    }
    out
}

pub struct RunOutcome {
    pub digest: u64,
    pub violation: Option<Violation>,
    pub nontrivial: bool,
    pub log: Option<Vec<String>>,
}

pub fn execute_once<W: World>(
    w: &W,
    plan: &W::Plan,
    stats: &mut Stats,
    known: &Known,
    verbose: bool,
) -> RunOutcome {
    let mut ctx = Ctx::new(w.id(), stats, known, verbose);
    // A panic that escapes a world's own catch points is a harness-visible
    // event: it is reported as a violation of class "escaped-panic" so that it
    // can be replayed and minimised like any other.
    let r = std::panic::catch_unwind(std::panic::AssertUnwindSafe(|| w.execute(plan, &mut ctx)));
    if let Err(p) = r {
        let msg = take_last_panic();
        let injected = p.downcast_ref::<InjectedPanic>().is_some();
        let class = if injected {
            "harness-escaped-injected-panic"
        } else if msg.starts_with("palsim: no-termination") {
            "no-termination"
        } else {
            "escaped-panic"
        };
        ctx.fail(class, &format!("{class}"), msg);
    }
    RunOutcome {
        digest: ctx.digest(),
        nontrivial: ctx.run_state_changes > 0 && ctx.run_oracle_checks > 0,
        violation: ctx.violation.take(),
        log: ctx.text.take(),
    }
}

// ---------------------------------------------------------------------------
// batch runner
// ---------------------------------------------------------------------------

pub struct BatchConfig {
    pub tier: Tier,
    pub seed: u64,
    pub runs_override: Option<u64>,
    pub workers: usize,
    pub wall_cap_s: f64,
    pub verif_dir: PathBuf,
    pub evidence_path: Option<PathBuf>,
    pub selftest: bool,
    /// Watchdog: a single plan that has been executing for longer than this (plans take micro- to
    /// milliseconds) is reported as a `no-termination` violation with a replay file; the process exits.
    pub plan_timeout_s: f64,
}

struct Found<P> {
    index: u64,
    plan: P,
    violation: Violation,
}

pub struct BatchResult<P> {
    pub stats: Stats,
    pub evaluations: u64,
    pub distinct_nontrivial: u64,
    pub distinct_plans: u64,
    pub batch_digest: u64,
    pub first: Option<(u64, P, Violation)>,
    pub sample_digests: BTreeMap<u64, u64>,
    pub samples: Vec<Value>,
    pub capped: bool,
    pub wall_s: f64,
}

fn selftest_sample(total: u64, want: u64) -> BTreeSet<u64> {
    let mut s = BTreeSet::new();
    if total == 0 {
        return s;
    }
    let head = want.min(total) / 2;
    for i in 0..head {
        s.insert(i);
    }
    let rest = want.min(total) - head;
    let stride = (total / rest.max(1)).max(1);
    let mut i = 0;
    while i < total && (s.len() as u64) < want {
        s.insert(i);
        i += stride;
    }
    s
}

pub fn make_plan<W: World>(w: &W, seed: u64, index: u64, tier: Tier) -> W::Plan {
    let mut rng = Rng::new(run_seed(seed, w.id(), index));
    w.plan(index, &mut rng, tier)
}

pub fn run_batch<W: World>(
    w: &W,
    cfg: &BatchConfig,
    known: &Known,
    total: u64,
    workers: usize,
    sample_idx: &BTreeSet<u64>,
    want_samples: usize,
) -> BatchResult<W::Plan> {
    let started = Instant::now();
    let next = AtomicU64::new(0);
    let stop_at = AtomicU64::new(u64::MAX);
    let capped = AtomicBool::new(false);
    let found: Mutex<Vec<Found<W::Plan>>> = Mutex::new(Vec::new());
    const CHUNK: u64 = 64;

    struct WorkerOut {
        stats: Stats,
        evaluations: u64,
        nontrivial: Vec<u64>,
        plans: Vec<u64>,
        digest_acc: u64,
        sample_digests: Vec<(u64, u64)>,
        samples: Vec<(u64, Value)>,
    }

    // ---- watchdog: which plan each worker is executing and since when
    let nworkers = workers.max(1);
    let watch_idx: Vec<AtomicU64> = (0..nworkers).map(|_| AtomicU64::new(u64::MAX)).collect();
    let watch_ms: Vec<AtomicU64> = (0..nworkers).map(|_| AtomicU64::new(0)).collect();
    let batch_done = AtomicBool::new(false);
    let worker_no = AtomicU64::new(0);

    let outs: Vec<WorkerOut> = std::thread::scope(|scope| {
        let dog = scope.spawn(|| {
            let limit_ms = (cfg.plan_timeout_s * 1000.0) as u64;
            while !batch_done.load(Ordering::Relaxed) {
                std::thread::sleep(std::time::Duration::from_millis(250));
                let now = started.elapsed().as_millis() as u64;
                for k in 0..nworkers {
                    let idx = watch_idx[k].load(Ordering::Relaxed);
                    let t0 = watch_ms[k].load(Ordering::Relaxed);
                    if idx != u64::MAX && now.saturating_sub(t0) > limit_ms && watch_idx[k].load(Ordering::Relaxed) == idx {
                        report_hang(w, cfg, idx, cfg.plan_timeout_s);
                    }
                }
            }
        });
        let mut handles = Vec::new();
        for _ in 0..nworkers {
            handles.push(scope.spawn(|| {
                let me = worker_no.fetch_add(1, Ordering::Relaxed) as usize % nworkers;
                let mut out = WorkerOut {
                    stats: Stats::default(),
                    evaluations: 0,
                    nontrivial: Vec::new(),
                    plans: Vec::new(),
                    digest_acc: 0,
                    sample_digests: Vec::new(),
                    samples: Vec::new(),
                };
                loop {
                    let start = next.fetch_add(CHUNK, Ordering::Relaxed);
                    if start >= total {
                        break;
                    }
                    if started.elapsed().as_secs_f64() > cfg.wall_cap_s {
                        capped.store(true, Ordering::Relaxed);
                        break;
                    }
                    for index in start..(start + CHUNK).min(total) {
                        if index > stop_at.load(Ordering::Relaxed) {
                            break;
                        }
                        let plan = make_plan(w, cfg.seed, index, cfg.tier);
                        let pd = det_hash(&plan);
                        watch_ms[me].store(started.elapsed().as_millis() as u64, Ordering::Relaxed);
                        watch_idx[me].store(index, Ordering::Relaxed);
                        let r = execute_once(w, &plan, &mut out.stats, known, false);
                        watch_idx[me].store(u64::MAX, Ordering::Relaxed);
                        out.evaluations += 1;
                        out.plans.push(pd);
                        if r.nontrivial {
                            out.nontrivial.push(pd);
                            if out.samples.len() < want_samples && index % 7 == 3 {
                                out.samples.push((
                                    index,
                                    json!({"index": index, "plan": serde_json::to_value(&plan).unwrap_or(Value::Null)}),
                                ));
                            }
                        }
                        let mut f = Fnv::default();
                        f.u64(index);
                        f.u64(r.digest);
                        out.digest_acc = out.digest_acc.wrapping_add(f.finish());
                        if sample_idx.contains(&index) {
                            out.sample_digests.push((index, r.digest));
                        }
                        if let Some(v) = r.violation {
                            stop_at.fetch_min(index, Ordering::Relaxed);
                            found.lock().unwrap().push(Found { index, plan, violation: v });
                        }
                    }
                }
                out
            }));
        }
        let outs = handles.into_iter().map(|h| h.join().expect("worker panicked")).collect();
        batch_done.store(true, Ordering::Relaxed);
        let _ = dog.join();
        outs
    });

    let mut stats = Stats::default();
    let mut evaluations = 0;
    let mut nontrivial: Vec<u64> = Vec::new();
    let mut plans: Vec<u64> = Vec::new();
    let mut batch_digest = 0u64;
    let mut sample_digests = BTreeMap::new();
    let mut samples: Vec<(u64, Value)> = Vec::new();
    for o in outs {
        stats.merge(o.stats);
        evaluations += o.evaluations;
        nontrivial.extend(o.nontrivial);
        plans.extend(o.plans);
        batch_digest = batch_digest.wrapping_add(o.digest_acc);
        sample_digests.extend(o.sample_digests);
        samples.extend(o.samples);
    }
    samples.sort_by_key(|(i, _)| *i);
    samples.truncate(want_samples);
    // distinct counts are measured: sort + dedup of the 64-bit plan digests
    nontrivial.sort_unstable();
    nontrivial.dedup();
    plans.sort_unstable();
    plans.dedup();
    let mut found = found.into_inner().unwrap();
    found.sort_by_key(|f| f.index);
    let first = found.into_iter().next().map(|f| (f.index, f.plan, f.violation));
    BatchResult {
        stats,
        evaluations,
        distinct_nontrivial: nontrivial.len() as u64,
        distinct_plans: plans.len() as u64,
        batch_digest,
        first,
        sample_digests,
        samples: samples.into_iter().map(|(_, v)| v).collect(),
        capped: capped.load(Ordering::Relaxed),
        wall_s: started.elapsed().as_secs_f64(),
    }
}

/// A plan did not come back: write a replay file and evidence, print the VIOLATION line, end the process.
/// (The stuck worker thread cannot be stopped; nothing it holds is needed any more.)
fn report_hang<W: World>(w: &W, cfg: &BatchConfig, index: u64, timeout_s: f64) -> ! {
    let plan = make_plan(w, cfg.seed, index, cfg.tier);
    let v = Violation {
        class: "no-termination".to_string(),
        key: format!("no-termination:{}", w.id()),
        detail: format!("plan index {index} was still executing after {timeout_s} s (plans take micro- to milliseconds): the code under test does not return"),
    };
    let dir = cfg.verif_dir.join("replays");
    let _ = std::fs::create_dir_all(&dir);
    let path = dir.join(format!("{}-{}-{}-hang.json", w.id(), cfg.seed, index));
    let rf = ReplayFile {
        property: w.id().to_string(),
        seed: cfg.seed,
        index,
        tier: cfg.tier.name().to_string(),
        minimised: false,
        shrink_executions: 0,
        violation: v.clone(),
        plan,
        log: Vec::new(),
        note: "not minimised: every shrinking step would have to wait for the watchdog".to_string(),
        hang: true,
        hang_timeout_s: timeout_s,
    };
    if let Ok(text) = serde_json::to_string_pretty(&rf) {
        let _ = std::fs::write(&path, text);
    }
    if let Some(p) = &cfg.evidence_path {
        let ev = json!({
            "property_id": w.id(), "tier": cfg.tier.name(), "seed": cfg.seed, "level": "other", "wall_s": timeout_s, "violations": 1,
            "coverage": {"evaluations": 1, "distinct_nontrivial": 1,
                "explanation": "this run did not complete: one plan did not terminate within the watchdog limit, which is reported as a violation with a replay file; no exploration statistics exist for a run that was cut short",
                "samples": [{"plan_index_that_did_not_terminate": index}], "replay": path.display().to_string()},
            "assumptions": []
        });
        let _ = std::fs::write(p, serde_json::to_string_pretty(&ev).unwrap_or_default() + "\n");
    }
    println!("violation at plan index {index}: class={} key={}", v.class, v.key);
    println!("  detail: {}", v.detail);
    println!("VIOLATION property={} replay={}", w.id(), path.display());
    std::process::exit(1);
}

/// Replay of a `no-termination` finding: execute the plan on a thread of its own; if it is still running
/// after `timeout_s` the violation reproduces (the process exits from here, the stuck thread cannot be joined).
fn replay_hang<W: World>(w: &W, plan: &W::Plan, known: &Known, timeout_s: f64, path: &Path) -> i32 {
    let done = AtomicBool::new(false);
    let started = Instant::now();
    std::thread::scope(|scope| {
        let h = scope.spawn(|| {
            let mut stats = Stats::default();
            let r = execute_once(w, plan, &mut stats, known, true);
            done.store(true, Ordering::SeqCst);
            r
        });
        while !done.load(Ordering::SeqCst) {
            if started.elapsed().as_secs_f64() > timeout_s {
                println!("replay-violation class=no-termination key=no-termination:{}", w.id());
                println!("  detail: the plan was still executing after {timeout_s} s");
                println!("VIOLATION property={} replay={}", w.id(), path.display());
                std::process::exit(1);
            }
            std::thread::sleep(std::time::Duration::from_millis(50));
        }
        match h.join() {
            Ok(r) => match r.violation {
                Some(v) => {
                    println!("replay-violation class={} key={}", v.class, v.key);
                    println!("  detail: {}", v.detail);
                    println!("VIOLATION property={} replay={}", w.id(), path.display());
                    1
                }
                None => {
                    println!("replay: the plan terminated after {:.1} s; no violation reproduced for property={}", started.elapsed().as_secs_f64(), w.id());
                    0
                }
            },
            Err(_) => 2,
        }
    })
}

// ---------------------------------------------------------------------------
// minimisation
// ---------------------------------------------------------------------------

pub fn minimise<W: World>(
    w: &W,
    plan: W::Plan,
    violation: &Violation,
    known: &Known,
    budget: u32,
) -> (W::Plan, Violation, u32) {
    let mut best = plan;
    let mut best_v = violation.clone();
    let mut used = 0u32;
    let mut scratch = Stats::default();
    'outer: loop {
        let cands = w.shrink(&best);
        for c in cands {
            if used >= budget {
                break 'outer;
            }
            used += 1;
            let r = execute_once(w, &c, &mut scratch, known, false);
            if let Some(v) = r.violation {
                if v.class == best_v.class {
                    best = c;
                    best_v = v;
                    continue 'outer;
                }
            }
        }
        break;
    }
    (best, best_v, used)
}

// ---------------------------------------------------------------------------
// replay files
// ---------------------------------------------------------------------------

#[derive(Serialize, Deserialize)]
pub struct ReplayFile<P> {
    pub property: String,
    pub seed: u64,
    pub index: u64,
    pub tier: String,
    pub minimised: bool,
    pub shrink_executions: u32,
    pub violation: Violation,
    pub plan: P,
    pub log: Vec<String>,
    #[serde(default)]
    pub note: String,
    /// the plan did not terminate (watchdog); replaying executes it under the same watchdog
    #[serde(default)]
    pub hang: bool,
    #[serde(default)]
    pub hang_timeout_s: f64,
}

pub fn replay_file<W: World>(w: &W, path: &Path, known: &Known) -> i32 {
    let text = match std::fs::read_to_string(path) {
        Ok(t) => t,
        Err(e) => {
            eprintln!("palsim: cannot read {}: {e}", path.display());
            return 2;
        }
    };
    let rf: ReplayFile<W::Plan> = match serde_json::from_str(&text) {
        Ok(r) => r,
        Err(e) => {
            eprintln!("palsim: cannot parse {}: {e}", path.display());
            return 2;
        }
    };
    if rf.hang {
        // scoped threads join on scope exit, so a plan that really hangs never lets the scope end:
        // run it on a detached helper process-wide and exit from here
        let timeout = if rf.hang_timeout_s > 0.0 { rf.hang_timeout_s } else { 120.0 };
        return replay_hang(w, &rf.plan, known, timeout, path);
    }
    let mut stats = Stats::default();
    let r = execute_once(w, &rf.plan, &mut stats, known, true);
    for l in r.log.unwrap_or_default() {
        println!("  | {l}");
    }
    println!("replay-digest {:016x}", r.digest);
    match r.violation {
        Some(v) => {
            println!("replay-violation class={} key={}", v.class, v.key);
            println!("  detail: {}", v.detail);
            println!("VIOLATION property={} replay={}", w.id(), path.display());
            1
        }
        None => {
            println!("replay: no violation reproduced for property={}", w.id());
            0
        }
    }
}

// ---------------------------------------------------------------------------
// the check driver
// ---------------------------------------------------------------------------

fn worker_count(cfg: &BatchConfig) -> usize {
    cfg.workers.max(1)
}

pub fn run_check<W: World>(w: &W, cfg: &BatchConfig) -> i32 {
    let known = match Known::load(&cfg.verif_dir.join("known_findings.json")) {
        Ok(k) => k,
        Err(e) => {
            eprintln!("palsim: harness error: {e}");
            return 2;
        }
    };
    let info = w.info();
    let enumerated = w.enumerated(cfg.tier);
    let random = cfg.runs_override.unwrap_or_else(|| w.random_runs(cfg.tier));
    let total = enumerated + random;
    let st_want = match cfg.tier {
        Tier::Quick => 1500,
        Tier::Thorough => 20000,
    };
    let sample_idx = if cfg.selftest { selftest_sample(total, st_want) } else { BTreeSet::new() };

    println!(
        "palsim: property={} tier={} seed={} plans={} (enumerated {} + seeded {}) workers={}",
        w.id(),
        cfg.tier.name(),
        cfg.seed,
        total,
        enumerated,
        random,
        worker_count(cfg)
    );

    let res = run_batch(w, cfg, &known, total, worker_count(cfg), &sample_idx, 4);

    // ---- determinism self-test: same indices, one worker, digests must agree
    let mut selftest = json!({"ran": false});
    if cfg.selftest && res.first.is_none() {
        let mut scratch = Stats::default();
        let mut mismatches = Vec::new();
        let mut compared = 0u64;
        for (&index, &d) in res.sample_digests.iter() {
            let plan = make_plan(w, cfg.seed, index, cfg.tier);
            let r = execute_once(w, &plan, &mut scratch, &known, false);
            compared += 1;
            if r.digest != d {
                mismatches.push(index);
            }
        }
        // second process (thorough, or when asked): recompute a prefix elsewhere
        let mut second = json!(null);
        if cfg.tier == Tier::Thorough || std::env::var("VERIF_SELFTEST_PROCESS").is_ok() {
            let n = 4000.min(total);
            let mine = prefix_digest(w, cfg, &known, n);
            match std::env::current_exe().ok().and_then(|exe| {
                std::process::Command::new(exe)
                    .args([
                        "digest",
                        w.id(),
                        "--tier",
                        cfg.tier.name(),
                        "--seed",
                        &cfg.seed.to_string(),
                        "--count",
                        &n.to_string(),
                        "--workers",
                        "3",
                    ])
                    .output()
                    .ok()
            }) {
                Some(out) => {
                    let s = String::from_utf8_lossy(&out.stdout);
                    let theirs = s
                        .lines()
                        .find_map(|l| l.strip_prefix("prefix-digest "))
                        .and_then(|h| u64::from_str_radix(h.trim(), 16).ok());
                    second = json!({"plans": n, "agree": theirs == Some(mine)});
                    if theirs != Some(mine) {
                        mismatches.push(u64::MAX);
                    }
                }
                None => {
                    second = json!({"skipped": "could not spawn second process"});
                }
            }
        }
        selftest = json!({
            "ran": true,
            "plans_re_executed_single_worker": compared,
            "mismatches": mismatches.len(),
            "second_process": second,
        });
        if !mismatches.is_empty() {
            eprintln!(
                "palsim: harness error: determinism self-test failed for property={} at indices {:?}",
                w.id(),
                &mismatches[..mismatches.len().min(8)]
            );
            return 2;
        }
    }

    // ---- violation handling
    let mut violations = 0;
    let mut exit = 0;
    let mut replay_path: Option<PathBuf> = None;
    if let Some((index, plan, v)) = res.first.clone() {
        violations = 1;
        let (min_plan, min_v, used) = minimise(w, plan.clone(), &v, &known, 2000);
        let mut scratch = Stats::default();
        let r = execute_once(w, &min_plan, &mut scratch, &known, true);
        let dir = cfg.verif_dir.join("replays");
        let _ = std::fs::create_dir_all(&dir);
        let path = dir.join(format!("{}-{}-{}.json", w.id(), cfg.seed, index));
        let rf = ReplayFile {
            property: w.id().to_string(),
            seed: cfg.seed,
            index,
            tier: cfg.tier.name().to_string(),
            minimised: true,
            shrink_executions: used,
            violation: min_v.clone(),
            plan: min_plan,
            log: r.log.unwrap_or_default(),
            note: format!("original violation before minimisation: class={} key={} :: {}", v.class, v.key, v.detail),
            hang: false,
            hang_timeout_s: 0.0,
        };
        match serde_json::to_string_pretty(&rf) {
            Ok(s) => {
                if let Err(e) = std::fs::write(&path, s) {
                    eprintln!("palsim: harness error: cannot write replay file: {e}");
                    return 2;
                }
            }
            Err(e) => {
                eprintln!("palsim: harness error: cannot serialise replay file: {e}");
                return 2;
            }
        }
        // confirm in a fresh process
        let confirmed = std::env::current_exe()
            .ok()
            .and_then(|exe| {
                std::process::Command::new(exe)
                    .arg("replay")
                    .arg(&path)
                    .env("VERIF_DIR", &cfg.verif_dir)
                    .output()
                    .ok()
            })
            .map(|o| {
                let s = String::from_utf8_lossy(&o.stdout).to_string();
                o.status.code() == Some(1) && s.contains(&format!("replay-violation class={}", min_v.class))
            })
            .unwrap_or(false);
        println!("violation at plan index {index}: class={} key={}", min_v.class, min_v.key);
        println!("  detail: {}", min_v.detail);
        println!("  minimised with {used} re-executions; fresh-process replay reproduces: {confirmed}");
        if !confirmed {
            eprintln!("palsim: harness error: minimised plan did not reproduce in a fresh process (kept at {})", path.display());
            return 2;
        }
        println!("VIOLATION property={} replay={}", w.id(), path.display());
        replay_path = Some(path);
        exit = 1;
    }

    for (k, n) in res.stats.known_hits.iter() {
        if let Some(e) = known.entries.iter().find(|e| &e.key == k && e.status == "open") {
            println!("KNOWN-FINDING: property={} {} [key={} hits={}]", w.id(), e.what, k, n);
        }
    }

    // ---- evidence
    let unreached_probes: Vec<&str> = info
        .expected_probes
        .iter()
        .copied()
        .filter(|p| res.stats.probes.get(p).copied().unwrap_or(0) == 0)
        .collect();
    let unreached_faults: Vec<&str> = info
        .expected_faults
        .iter()
        .copied()
        .filter(|p| res.stats.faults.get(p).copied().unwrap_or(0) == 0)
        .collect();
    let mut grid: BTreeMap<String, u64> = BTreeMap::new();
    for ((a, b), n) in res.stats.grid.iter() {
        grid.insert(format!("{a} x {b}"), *n);
    }
    let grid_cells = grid.len();
    let grid_min = grid.values().copied().min().unwrap_or(0);
    let per_hour = if res.wall_s > 0.0 { (res.evaluations as f64 / res.wall_s * 3600.0) as u64 } else { 0 };
    let mut coverage = json!({
        "evaluations": res.evaluations,
        "distinct_nontrivial": res.distinct_nontrivial,
        "distinct_plans": res.distinct_plans,
        "rule": info.rule,
        "samples": res.samples,
        "enumerated_plans": enumerated,
        "seeded_plans": res.evaluations.saturating_sub(enumerated.min(res.evaluations)),
        "exhaustive": false,
        "runs_per_hour": per_hour,
        "seeds_per_hour": per_hour,
        "steps_executed": res.stats.steps,
        "simulated_time": info.time_note,
        "oracle_comparisons": res.stats.oracle_checks,
        "faults_fired": res.stats.faults,
        "reach_probes": res.stats.probes,
        "unreached": {"probes": unreached_probes, "fault_kinds": unreached_faults},
        "coverage_grid_cells": grid_cells,
        "coverage_grid_min_hits": grid_min,
        "states": res.stats.states.len(),
        "transitions": res.stats.transitions.len(),
        "state_measure": info.state_measure,
        "determinism_selftest": selftest,
        "batch_digest": format!("{:016x}", res.batch_digest),
        "workers": worker_count(cfg),
        "stopped_by_wall_cap": res.capped,
        "components": {"real": info.real, "stub": info.stub},
        "known_finding_hits": res.stats.known_hits,
        "extra_counters": res.stats.extra,
    });
    if grid_cells <= 400 {
        coverage["coverage_grid"] = json!(grid);
    }
    if let (Value::Object(c), Value::Object(e)) = (&mut coverage, w.extra_evidence(&res.stats)) {
        for (k, v) in e {
            c.insert(k, v);
        }
    }
    if let Some(p) = &replay_path {
        coverage["replay"] = json!(p.display().to_string());
    }
    let evidence = json!({
        "property_id": w.id(),
        "tier": cfg.tier.name(),
        "seed": cfg.seed,
        "level": "exploration",
        "coverage": coverage,
        "assumptions": info.assumptions,
        "wall_s": res.wall_s,
        "violations": violations,
    });
    if let Some(p) = &cfg.evidence_path {
        if let Some(d) = p.parent() {
            let _ = std::fs::create_dir_all(d);
        }
        if let Err(e) = std::fs::write(p, serde_json::to_string_pretty(&evidence).unwrap() + "\n") {
            eprintln!("palsim: harness error: cannot write evidence {}: {e}", p.display());
            return 2;
        }
    }
    println!(
        "palsim: property={} plans={} distinct-nontrivial={} steps={} oracle-comparisons={} states={} transitions={} wall={:.1}s{}",
        w.id(),
        res.evaluations,
        res.distinct_nontrivial,
        res.stats.steps,
        res.stats.oracle_checks,
        res.stats.states.len(),
        res.stats.transitions.len(),
        res.wall_s,
        if res.capped { " (stopped by wall cap)" } else { "" }
    );
    let f: Vec<String> = res.stats.faults.iter().map(|(k, v)| format!("{k}={v}")).collect();
    println!("palsim: faults fired: {}", f.join(" "));
    if !unreached_probes.is_empty() || !unreached_faults.is_empty() {
        println!("palsim: unreached probes={unreached_probes:?} fault-kinds={unreached_faults:?}");
    }
    if exit == 0 {
        println!("palsim: property={} held on everything explored", w.id());
    }
    exit
}

/// Order-independent digest of the first `n` plans' event logs.
pub fn prefix_digest<W: World>(w: &W, cfg: &BatchConfig, known: &Known, n: u64) -> u64 {
    let empty = BTreeSet::new();
    let r = run_batch(w, cfg, known, n, cfg.workers.max(1), &empty, 0);
    r.batch_digest
}

pub fn digest_cmd<W: World>(w: &W, cfg: &BatchConfig, n: u64) -> i32 {
    let known = Known::load(&cfg.verif_dir.join("known_findings.json")).unwrap_or_default();
    let d = prefix_digest(w, cfg, &known, n);
    println!("prefix-digest {d:016x}");
    0
}

/// Print the event log of one generated plan (debugging aid; also used to
/// diff logs between processes).
pub fn show_cmd<W: World>(w: &W, cfg: &BatchConfig, index: u64) -> i32 {
    let known = Known::load(&cfg.verif_dir.join("known_findings.json")).unwrap_or_default();
    let plan = make_plan(w, cfg.seed, index, cfg.tier);
    println!("{}", serde_json::to_string_pretty(&plan).unwrap());
    let mut stats = Stats::default();
    let r = execute_once(w, &plan, &mut stats, &known, true);
    for l in r.log.unwrap_or_default() {
        println!("  | {l}");
    }
    println!("digest {:016x} nontrivial={} violation={:?}", r.digest, r.nontrivial, r.violation);
    0
}
