//! Simulator core shared by all worlds.
pub mod core;
pub mod rng;
