//! The only source of pseudo-randomness in the simulator.
//!
//! Everything is derived from one integer (`VERIF_SEED`): per-run seeds via
//! splitmix64, per-run streams via xoshiro256**. No OS entropy, no clock.

#[inline]
pub fn splitmix64(state: &mut u64) -> u64 {
    *state = state.wrapping_add(0x9E37_79B9_7F4A_7C15);
    let mut z = *state;
    z = (z ^ (z >> 30)).wrapping_mul(0xBF58_476D_1CE4_E5B9);
    z = (z ^ (z >> 27)).wrapping_mul(0x94D0_49BB_1331_11EB);
    z ^ (z >> 31)
}

pub fn fnv1a(bytes: &[u8]) -> u64 {
    let mut h: u64 = 0xcbf2_9ce4_8422_2325;
    for b in bytes {
        h ^= *b as u64;
        h = h.wrapping_mul(0x0000_0100_0000_01B3);
    }
    h
}

/// Seed of run `index` of property `prop` under master seed `master`.
pub fn run_seed(master: u64, prop: &str, index: u64) -> u64 {
    let mut s = master ^ fnv1a(prop.as_bytes()).rotate_left(17) ^ index.wrapping_mul(0xD6E8_FEB8_6659_FD93);
    let a = splitmix64(&mut s);
    let b = splitmix64(&mut s);
    a ^ b.rotate_left(32)
}

#[derive(Clone, Debug)]
pub struct Rng {
    s: [u64; 4],
}

impl Rng {
    pub fn new(seed: u64) -> Self {
        let mut sm = seed;
        let mut s = [0u64; 4];
        for x in s.iter_mut() {
            *x = splitmix64(&mut sm);
        }
        if s == [0; 4] {
            s[0] = 1;
        }
        Rng { s }
    }

    #[inline]
    pub fn next_u64(&mut self) -> u64 {
        let result = self.s[1].wrapping_mul(5).rotate_left(7).wrapping_mul(9);
        let t = self.s[1] << 17;
        self.s[2] ^= self.s[0];
        self.s[3] ^= self.s[1];
        self.s[1] ^= self.s[2];
        self.s[0] ^= self.s[3];
        self.s[2] ^= t;
        self.s[3] = self.s[3].rotate_left(45);
        result
    }

    #[inline]
    pub fn next_u32(&mut self) -> u32 {
        (self.next_u64() >> 32) as u32
    }

    /// Uniform in `0..n` (n > 0). Multiply-shift; bias is irrelevant here.
    #[inline]
    pub fn below(&mut self, n: u64) -> u64 {
        debug_assert!(n > 0);
        ((self.next_u64() as u128 * n as u128) >> 64) as u64
    }

    #[inline]
    pub fn range(&mut self, lo: i64, hi_incl: i64) -> i64 {
        lo + self.below((hi_incl - lo + 1) as u64) as i64
    }

    #[inline]
    pub fn usize_below(&mut self, n: usize) -> usize {
        self.below(n as u64) as usize
    }

    /// True with probability `num/den`.
    #[inline]
    pub fn chance(&mut self, num: u64, den: u64) -> bool {
        self.below(den) < num
    }

    /// Uniform in [0, 1) with 53 bits.
    #[inline]
    pub fn unit_f64(&mut self) -> f64 {
        (self.next_u64() >> 11) as f64 * (1.0 / (1u64 << 53) as f64)
    }

    pub fn pick<'a, T>(&mut self, xs: &'a [T]) -> &'a T {
        &xs[self.usize_below(xs.len())]
    }

    /// Pick an index according to integer weights.
    pub fn weighted(&mut self, weights: &[u32]) -> usize {
        let total: u64 = weights.iter().map(|w| *w as u64).sum();
        debug_assert!(total > 0);
        let mut x = self.below(total);
        for (i, w) in weights.iter().enumerate() {
            if x < *w as u64 {
                return i;
            }
            x -= *w as u64;
        }
        weights.len() - 1
    }

    pub fn shuffle<T>(&mut self, xs: &mut [T]) {
        for i in (1..xs.len()).rev() {
            let j = self.usize_below(i + 1);
            xs.swap(i, j);
        }
    }
}

/// Streaming FNV-1a, used for event-log and plan digests.
#[derive(Clone, Copy, Debug)]
pub struct Fnv(pub u64);

impl Default for Fnv {
    fn default() -> Self {
        Fnv(0xcbf2_9ce4_8422_2325)
    }
}

impl Fnv {
    #[inline]
    pub fn bytes(&mut self, bytes: &[u8]) {
        for b in bytes {
            self.0 ^= *b as u64;
            self.0 = self.0.wrapping_mul(0x0000_0100_0000_01B3);
        }
    }
    #[inline]
    pub fn u64(&mut self, v: u64) {
        self.bytes(&v.to_le_bytes());
    }
    pub fn finish(&self) -> u64 {
        let mut s = self.0;
        splitmix64(&mut s)
    }
}
