//! palsim — deterministic simulation with fault injection for palette.
//!
//!   palsim run <id> [--tier quick|thorough] [--seed N] [--runs N] [--workers N]
//!   palsim replay <file>
//!   palsim digest <id> --count N [...]
//!   palsim show <id> --index N [...]
//!   palsim counts <id> [--tier t]
//!
//! Exit codes: 0 held, 1 violation (with a `VIOLATION property=<id> replay=<path>` line),
//! 2 harness error.







use simcore::core::{digest_cmd, replay_file, run_check, show_cmd, BatchConfig, Known, Tier, World, DEFAULT_SEED};
use std::path::PathBuf;

fn arg_value(args: &[String], name: &str) -> Option<String> {
    args.iter().position(|a| a == name).and_then(|i| args.get(i + 1).cloned())
}

fn verif_dir() -> PathBuf {
    if let Ok(d) = std::env::var("VERIF_DIR") {
        return PathBuf::from(d);
    }
    PathBuf::from("/verif")
}

fn config(args: &[String]) -> BatchConfig {
    let tier = match arg_value(args, "--tier").or_else(|| std::env::var("VERIF_TIER").ok()).as_deref() {
        Some("thorough") => Tier::Thorough,
        _ => Tier::Quick,
    };
    let seed = arg_value(args, "--seed")
        .or_else(|| std::env::var("VERIF_SEED").ok())
        .and_then(|s| s.trim().parse::<u64>().ok().or_else(|| s.trim().parse::<i64>().ok().map(|v| v as u64)))
        .unwrap_or(DEFAULT_SEED);
    let workers = arg_value(args, "--workers")
        .or_else(|| std::env::var("VERIF_WORKERS").ok())
        .and_then(|s| s.parse().ok())
        .unwrap_or_else(|| std::thread::available_parallelism().map(|n| n.get()).unwrap_or(4).min(16));
    let runs_override = arg_value(args, "--runs").or_else(|| std::env::var("VERIF_RUNS").ok()).and_then(|s| s.parse().ok());
    let wall_cap_s = arg_value(args, "--wall-cap")
        .and_then(|s| s.parse().ok())
        .unwrap_or(match tier {
            Tier::Quick => 240.0,
            Tier::Thorough => 3600.0,
        });
    BatchConfig {
        tier,
        seed,
        runs_override,
        workers,
        wall_cap_s,
        verif_dir: verif_dir(),
        evidence_path: None,
        selftest: !args.iter().any(|a| a == "--no-selftest"),
        plan_timeout_s: arg_value(args, "--plan-timeout")
            .or_else(|| std::env::var("VERIF_PLAN_TIMEOUT_S").ok())
            .and_then(|s| s.parse().ok())
            .unwrap_or(120.0),
    }
}

fn with_world<R>(id: &str, f: impl FnOnce(&dyn Dispatch) -> R) -> Option<R> {
    match id {
        #[cfg(feature = "c13")]
        "C13" => Some(f(&c13::C13::new())),
        #[cfg(feature = "c18")]
        "C18" => Some(f(&c18::C18::new())),
        #[cfg(feature = "c19")]
        "C19" => Some(f(&c19::C19::new())),
        #[cfg(feature = "c20")]
        "C20" => Some(f(&c20::C20::new())),
        _ => None,
    }
}

/// Object-safe front for the generic driver functions.
trait Dispatch {
    fn run(&self, cfg: &BatchConfig) -> i32;
    fn replay(&self, path: &std::path::Path, known: &Known) -> i32;
    fn digest(&self, cfg: &BatchConfig, n: u64) -> i32;
    fn show(&self, cfg: &BatchConfig, index: u64) -> i32;
    fn counts(&self, cfg: &BatchConfig) -> (u64, u64);
}

impl<W: World> Dispatch for W {
    fn run(&self, cfg: &BatchConfig) -> i32 {
        run_check(self, cfg)
    }
    fn replay(&self, path: &std::path::Path, known: &Known) -> i32 {
        replay_file(self, path, known)
    }
    fn digest(&self, cfg: &BatchConfig, n: u64) -> i32 {
        digest_cmd(self, cfg, n)
    }
    fn show(&self, cfg: &BatchConfig, index: u64) -> i32 {
        show_cmd(self, cfg, index)
    }
    fn counts(&self, cfg: &BatchConfig) -> (u64, u64) {
        (self.enumerated(cfg.tier), cfg.runs_override.unwrap_or_else(|| self.random_runs(cfg.tier)))
    }
}

fn main() {
    let args: Vec<String> = std::env::args().collect();
    simcore::core::install_panic_hook();
    let code = real_main(&args);
    std::process::exit(code);
}

fn real_main(args: &[String]) -> i32 {
    let Some(cmd) = args.get(1) else {
        eprintln!("usage: palsim run|replay|digest|show ...");
        return 2;
    };
    match cmd.as_str() {
        "run" => {
            let Some(id) = args.get(2) else { return 2 };
            let mut cfg = config(args);
            cfg.evidence_path = Some(
                arg_value(args, "--evidence")
                    .map(PathBuf::from)
                    .unwrap_or_else(|| cfg.verif_dir.join("evidence").join(format!("{id}.json"))),
            );
            with_world(id, |w| w.run(&cfg)).unwrap_or_else(|| {
                eprintln!("palsim: unknown property {id}");
                2
            })
        }
        "replay" => {
            let Some(path) = args.get(2) else { return 2 };
            let path = PathBuf::from(path);
            let text = match std::fs::read_to_string(&path) {
                Ok(t) => t,
                Err(e) => {
                    eprintln!("palsim: cannot read {}: {e}", path.display());
                    return 2;
                }
            };
            let id = serde_json::from_str::<serde_json::Value>(&text)
                .ok()
                .and_then(|v| v.get("property").and_then(|p| p.as_str().map(String::from)));
            let Some(id) = id else {
                eprintln!("palsim: {} has no property field", path.display());
                return 2;
            };
            let known = Known::load(&verif_dir().join("known_findings.json")).unwrap_or_default();
            with_world(&id, |w| w.replay(&path, &known)).unwrap_or(2)
        }
        "digest" => {
            let Some(id) = args.get(2) else { return 2 };
            let cfg = config(args);
            let n = arg_value(args, "--count").and_then(|s| s.parse().ok()).unwrap_or(1000);
            with_world(id, |w| w.digest(&cfg, n)).unwrap_or(2)
        }
        "counts" => {
            // `palsim counts <id> [--tier t]`: sizes of the enumerated front and of the seeded part
            let Some(id) = args.get(2) else { return 2 };
            let cfg = config(args);
            with_world(id, |w| {
                let (e, r) = w.counts(&cfg);
                println!("enumerated {e} seeded {r}");
                0
            })
            .unwrap_or(2)
        }
        "show" => {
            let Some(id) = args.get(2) else { return 2 };
            let cfg = config(args);
            let n = arg_value(args, "--index").and_then(|s| s.parse().ok()).unwrap_or(0);
            with_world(id, |w| w.show(&cfg, n)).unwrap_or(2)
        }
        _ => {
            eprintln!("palsim: unknown command {cmd}");
            2
        }
    }
}
