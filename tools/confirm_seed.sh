#!/bin/bash
# usage: confirm_seed.sh <scratch-worktree> <change-dir>
# Confirms a seeded change independently: applies cleanly, builds, the pinned default
# suite still passes, the demonstration fails with it and passes without it.
wt="$1"; ch="$2"
export CARGO_TARGET_DIR="$wt/target" CARGO_NET_OFFLINE=true
cd "$wt" || exit 2
git checkout -q -- . ; rm -f palette/tests/demo_seed.rs
res="$ch/confirm.txt"; : > "$res"
git apply --check "$ch/patch.diff" 2>>"$res" || { echo "APPLY: fail" >> "$res"; exit 1; }
git apply "$ch/patch.diff"; echo "APPLY: ok" >> "$res"
if cargo build -p palette --offline --features random,serializing >/dev/null 2>&1 && cargo build -p palette --offline >/dev/null 2>&1; then echo "BUILD: ok" >> "$res"; else echo "BUILD: fail" >> "$res"; fi
out=$(cargo test --workspace --no-fail-fast --offline 2>&1)
passed=$(echo "$out" | grep -E "^test result" | awk '{s+=$4} END {print s}')
failed=$(echo "$out" | grep -E "^test result" | awk '{s+=$6} END {print s}')
echo "SUITE: passed=$passed failed=$failed" >> "$res"
mkdir -p palette/tests; cp "$ch/demo.rs" palette/tests/demo_seed.rs
if cargo test -p palette --test demo_seed --offline --features random,serializing >/dev/null 2>&1; then echo "DEMO-WITH-CHANGE: pass (unexpected)" >> "$res"; else echo "DEMO-WITH-CHANGE: fail (expected)" >> "$res"; fi
rm -f palette/tests/demo_seed.rs; git checkout -q -- .
mkdir -p palette/tests; cp "$ch/demo.rs" palette/tests/demo_seed.rs
if cargo test -p palette --test demo_seed --offline --features random,serializing >/dev/null 2>&1; then echo "DEMO-WITHOUT-CHANGE: pass (expected)" >> "$res"; else echo "DEMO-WITHOUT-CHANGE: fail (unexpected)" >> "$res"; fi
rm -f palette/tests/demo_seed.rs; rmdir palette/tests 2>/dev/null; git checkout -q -- .
cat "$res"
