#!/bin/bash
# Determinism proof (development tool): for every claimed property and a list of
# VERIF_SEED values, the event logs of the first N plans are digested in separate
# processes at 1, 5 and 16 workers, twice each; all digests per (property, seed)
# must agree. Also diffs the full event log of a few plans between two processes.
# usage: tools/determinism.sh [N] [seeds...]
here="$(cd "$(dirname "${BASH_SOURCE[0]}")/.." && pwd)"
export CARGO_NET_OFFLINE=true VERIF_DIR="$here"
(cd "$here/sim" && cargo build --release --offline >/dev/null 2>&1) || { echo "determinism: build failed"; exit 2; }
bin="$here/sim/target/release/palsim"
n="${1:-20000}"; shift
seeds=("$@"); [ ${#seeds[@]} -eq 0 ] && seeds=(1 2 3 7 42 1234 20260926 4294967296 18446744073709551615 99991)
bad=0; total=0
for p in C13 C18 C19 C20; do
  for s in "${seeds[@]}"; do
    ref=""
    for w in 1 5 16 16 1; do
      d=$("$bin" digest $p --seed $s --count $n --workers $w | grep prefix-digest | awk '{print $2}')
      total=$((total+1))
      if [ -z "$ref" ]; then ref="$d"; elif [ "$d" != "$ref" ]; then echo "MISMATCH $p seed=$s workers=$w: $d vs $ref"; bad=$((bad+1)); fi
    done
    for idx in 0 500 999 100000; do
      a=$("$bin" show $p --seed $s --index $idx | md5sum); b=$("$bin" show $p --seed $s --index $idx | md5sum)
      total=$((total+1)); [ "$a" != "$b" ] && { echo "LOG DIFF $p seed=$s index=$idx"; bad=$((bad+1)); }
    done
    echo "$p seed=$s digest=$ref"
  done
done
echo "determinism: $total comparisons over ${#seeds[@]} seeds x 4 properties x $n plans, $bad mismatches"
[ $bad -eq 0 ]
