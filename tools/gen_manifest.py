#!/usr/bin/env python3
"""Regenerates /verif/MANIFEST.json from the tables below and validates it."""
import json, os, subprocess, sys
here = os.path.dirname(os.path.dirname(os.path.abspath(__file__)))

NA = {
"C01":"pure function of (type pair, color): no schedule, clock, fault or history for a simulator to vary; needs property-based/differential testing (DESIGN §5)",
"C02":"pure function; needs independent evaluation of the published formulas over the input domain (DESIGN §5)",
"C03":"pure relation between three functions of one color (DESIGN §5)",
"C04":"pure function of (type, pointer, length, capacity); memory soundness of the casts is a sanitizer question (DESIGN §5)",
"C05":"pure function; its own quantifier asks for all 2^32 f32 bit patterns, i.e. exhaustive enumeration, not seeded search over schedules (DESIGN §5)",
"C06":"pure bit-trick arithmetic; exhaustive/SMT territory (DESIGN §5)",
"C07":"pure: a panic here is an output of the function, not an injected event (DESIGN §5)",
"C08":"pure algebraic identities over colors and factors (DESIGN §5)",
"C09":"pure numerical identities (DESIGN §5)",
"C10":"pure algebraic identities; the by-value/assign/slice variants are separate pure functions, not interleavings (DESIGN §5)",
"C11":"pure; exhaustive over f32 angles by its own quantifier (DESIGN §5)",
"C12":"pure function of a string/integer; the only fault surface (a failing fmt::Write sink behind one write!) is too thin to carry the property (DESIGN §5)",
"C14":"pure numerical statement about constants and matrices (DESIGN §5)",
"C15":"pure numerical statement (DESIGN §5)",
"C16":"pure numerical statement about an iterative approximation (DESIGN §5)",
"C17":"pure: SIMD lanes are data parallelism inside one deterministic call, there is no lane scheduler to control (DESIGN §5)",
}
WIP = {
}
TECH = "deterministic simulation with fault injection: seeded plans against a reference model/oracle, injected faults, minimised replayable plans"
CHECKS = {
"C13": dict(
  text="seeded search over guard-operation histories (open, read, write, operator, then_into, switch_mode, nest to depth 4 - 6 in a quarter of the thorough plans -, drop/restore/forget/unwind) on buffers of 0..24 (thorough: ..96) colors over seven families of layout-compatible types ([f32;1], [f32;2], two of [f32;3] - around sRGB/CIE and around Oklab -, [f32;4], [f64;3], [f64;4]; slice and single-value guards, owned Vec/Box conversions), bit-compared after every step with a model built from the ordinary by-value conversions; plus an enumeration of every crash point (panic on the k-th element conversion) in every in-place entry point with drop-tracking probe colors of 0 (a zero-sized color), 1, 2, 3 and 4 components, and a Miri stage in the thorough tier (every crash point for lengths 0..=3, 60 histories stratified over end of life x slice/single-value guard x layout family); a clean batch is evidence, not proof",
  ref="DESIGN.md §4.1",
  note="the by-value conversions are the oracle by definition of the property; after a panicking conversion only ownership (no double drop, no use of dead values, caller-owned buffers still fully live) is checked because the documentation leaves the values unspecified; Miri is an additional memory-safety oracle when available; a simulator process killed by a signal is reported as a violation pinned on the crashing plan",
  tech="deterministic simulation with fault injection: seeded guard histories vs. by-value model, unwind/leak faults, exhaustive crash points in in-place maps, Miri as UB oracle"),
"C18": dict(
  text="seeded search over operation histories (<=50 ops, <=60 elements; a quarter of the thorough plans <=130 ops, <=250 elements) on every struct-of-arrays instantiation (26 color types x plain/alpha/alpha-of-another-element-type), refined step by step against a Vec model; iterators are driven through next/next_back/nth/nth_back/len/size_hint and ended by drop/exhaust/count/forget/last/fold/rfold/rev-skip-step_by; the Box/array/slice/mut-slice forms get up to three actions on one instance and are read back through themselves; iterator searching methods (find, rfind, position, rposition, any, all) comparing consumers (eq, ne, also against an iterator with an inexact size hint) and selecting consumers (max_by, min_by, max_by_key, min_by_key over a rank with ties); folding and adapting consumers (reduce, try_fold/try_rfold breaking off mid-way with the iterator used further, partition, step_by, skip, zip, chain, take, last, count, is_sorted_by) through one generic function run over the collection's iterator and the vector's; ranged get/get_mut also where alpha has another element type; extend/collect sources with exact, absent and loose size hints, also sources that are not fused (reference: Vec fed from an identical source, also for how much of the source is taken); cancel/leak/unwind/contract-panic faults placed inside live drains and iterators; a clean batch is evidence, not proof",
  ref="DESIGN.md §4.2",
  note="trusts the Vec, slice and Drain of std as the reference; items are numbered so each component slot has its own value set; after a leaked drain only equal component lengths and an intact prefix are demanded (std leaves the amount lost unspecified)",
  tech="deterministic simulation with fault injection: seeded histories vs. Vec reference model, unwind/leak/cancel faults, minimised replayable plans"),
"C19": dict(
  text="the entropy source behind the Rng seam of palette is owned by the simulator: fair streams and faulty ones (stuck, alternating, low-entropy, counter, adversarially scripted extreme words) drive Standard, Uniform::new/new_inclusive and sample_single(_inclusive) of every sampling-capable color type, hue type and Alpha<_> in f32 and f64 (also alpha of the other float width than the color, and clones of the samplers where the type is Clone), with end points drawn inside the contract of rand (hue ends also whole turns apart and in descending raw order where the arc does not wrap); every sample is judged for containment (exact for pass-through components, conditioning-based tolerance for sqrt/cbrt components, arc membership on the normal forms for hues, equivalent HSV saturation/value for HWB); fair streams additionally feed a chi-square test (per coordinate and per coordinate pair) of the analytic volume CDF on wide ranges, the full range and slices of the shape with one pinned component (for HWB: equal blackness, the gray axis, the cone surface); evidence, not proof, and the statistical part cannot be seed-independent",
  ref="DESIGN.md §4.3",
  note="rand 0.8 is trusted; end points keep a resolvable separation (UniformFloat::new of rand does not return for ranges a few ulps wide); chi-square threshold p<1e-9",
  tech="deterministic simulation with fault injection: simulated entropy source (fair, stuck, periodic, low-entropy, adversarial) behind the Rng seam, containment + volume-CDF oracles"),
"C20": dict(
  text="the hand-written serializer/deserializer adapters of palette run between the derived impls and a simulated format peer that varies every legal presentation (map or sequence, key forms, key order, size hints, missing alpha, JSON-like or RON-like answer to deserialize_option, text-like or binary answer to is_human_readable, rejection of unread entries) and fails at every call position, and between serde_json/ron and simulated byte streams with short reads/writes, EINTR, errors and EOF at every byte; every serializable color type in f32/f64 (+u8/u16), Alpha/PreAlpha, alpha of another scalar type, the hue types, eleven user-defined serde shapes; deserialize_in_place agreeing with deserialize; as_uint up to 128 bits; the helpers as serde attributes on a user document; the color as payload of untagged / internally tagged / adjacently tagged user enums (serde's buffered Content replay) and among fourteen other palette colors in one untagged enum, and the document offered to every color family in turn (nothing may come back that the document does not say); several colors in one document (vector, option, tuple, array, map, user struct with other colors in between, stream of documents) through JSON, serde_json::Value, RON and a simulated reader, each position round-trips and the document equals its parts; raw hue angles judged by PartialEq; round trip, stable-shape token tree, optional-alpha (JSON, RON, peer) and as_array/as_uint oracles; evidence, not proof",
  ref="DESIGN.md §4.4",
  note="serde, serde_json and ron are trusted; text channels use exactly representable decimals; bincode-style length-limited sequences, serde(flatten) and what a color inside Alpha is told by is_human_readable under a binary peer are deliberately not judged (observed, in the evidence); documents palette never writes may be rejected or accepted, only a wrong value is a violation",
  tech="deterministic simulation with fault injection: simulated serde peer (presentation schedule, error at call k) and simulated I/O (short/EINTR/error/EOF) around the real adapters"),
}

def main(claimed):
    checks = []
    for pid in claimed:
        c = CHECKS[pid]
        checks.append({
            "property_id": pid,
            "quick_cmd": f"./check {pid} --tier quick",
            "thorough_cmd": f"./check {pid} --tier thorough",
            "evidence_file": f"/verif/evidence/{pid}.json",
            "replay_cmd_template": f"./check {pid} --replay {{path}}",
            "engine": "palsim",
            "level_claimed": {"category": "exploration", "text": c["text"], "design_ref": c["ref"]},
            "level_note": c["note"],
            "technique": c["tech"],
        })
    na = [{"property_id": k, "reason": v} for k, v in NA.items()]
    for pid in ["C13", "C18", "C19", "C20"]:
        if pid not in claimed:
            na.append({"property_id": pid, "reason": f"check under construction in this build round ({CHECKS[pid]['ref']}); will be claimed"})
    m = {
        "version": 1,
        "setup_cmd": "cd /verif/sim && export CARGO_NET_OFFLINE=true && cargo build --release --offline && for w in c13 c18 c19 c20; do cargo build --release --offline -p palsim --bin palsim-$w --no-default-features --features $w || exit 1; done",
        "hooks": {
            "guard": "palette_verif",
            "enable": "no hooks are needed: every seam the simulator uses (Rng, Serializer/Deserializer, io::Read/Write, IntoIterator, FnMut, user color types) is already a trait or generic parameter of palette's public API; palette is built unmodified from /repo as a path dependency with features random+serializing",
            "baseline_off_cmd": "cd /repo && cargo test --workspace --no-fail-fast --offline",
            "source_commits": [],
            "add_only": True,
        },
        "engines": [{
            "name": "palsim", "path": "/verif/sim", "serves_properties": claimed,
            "kind_free_text": "single-process deterministic simulator: one integer (VERIF_SEED) decides every plan; plans are generated as data, executed against the real palette code and a reference model/oracle with injected faults (unwind, leak, cancel, contract panic, degenerate entropy, peer errors, I/O faults); parallel batch runner whose outcome is independent of the worker count, determinism self-test, delta-debugging minimiser, replay files confirmed in a fresh process",
        }],
        "checks": checks,
        "notes": "Deterministic simulation with fault injection. Four of the twenty properties have something other than the call's arguments deciding the outcome (operation histories with unwind/leak faults: C13, C18; the entropy seam: C19; the serde peer and its I/O: C20); the other sixteen are pure functions and are listed as not applicable, see DESIGN.md §1 and §5. One genuine defect (C19, uniform hue samplers) was found and repaired in /repo commit e200334; see known_findings.json. 102 independently written property-breaking changes, 23 own edits and 62 property-preserving changes (all silent) are kept under seeded/, sensitivity/ and benign/ with the check that catches each (DESIGN.md §8.5).",
        "not_applicable": sorted(na, key=lambda e: e["property_id"]),
    }
    path = os.path.join(here, "MANIFEST.json")
    json.dump(m, open(path, "w"), indent=1)
    r = subprocess.run(["python3-vt", "-c", "import json,jsonschema;jsonschema.validate(json.load(open('%s')),json.load(open('/root/.vp/MANIFEST.schema.json')));print('manifest ok: %d checks, %d n/a')" % (path, len(checks), len(na))])
    sys.exit(r.returncode)

if __name__ == "__main__":
    main(sys.argv[1:] or ["C13", "C18", "C19", "C20"])
