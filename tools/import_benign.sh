#!/bin/bash
# Development tool: takes a sub-agent's property-preserving patches from /tmp/wt-<name>/benign_out (N.diff, meta.json)
# and stores them as /verif/benign/<prop>-b<first+N-1>.diff (+ entries appended to <prop>-meta.json); removes the worktree.
# usage: tools/import_benign.sh <wt-name> <prop> <first-number>
name="$1"; prop="$2"; first="$3"
src="/tmp/wt-$name/benign_out"
[ -f "$src/meta.json" ] || { echo "import_benign: no meta.json in $src"; exit 2; }
python3 - "$src" "$prop" "$first" <<'PY'
import json, sys, os
src, prop, first = sys.argv[1], sys.argv[2], int(sys.argv[3])
meta = json.load(open(os.path.join(src, 'meta.json')))
dst = '/verif/benign'
mp = os.path.join(dst, f'{prop}-meta.json')
old = json.load(open(mp)) if os.path.exists(mp) else []
for m in meta:
    n = int(m['n'])
    d = os.path.join(src, f'{n}.diff')
    if not os.path.exists(d):
        print('missing', d); continue
    new_n = first + n - 1
    body = open(d).read()
    open(os.path.join(dst, f'{prop}-b{new_n}.diff'), 'w').write(f'# property={prop}\n' + body)
    m = dict(m); m['n'] = new_n
    old = [o for o in old if o.get('n') != new_n] + [m]
    print('imported', f'{prop}-b{new_n}')
json.dump(sorted(old, key=lambda o: o['n']), open(mp, 'w'), indent=1)
PY
git -C /repo worktree remove --force "/tmp/wt-$name"
