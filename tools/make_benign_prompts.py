#!/usr/bin/env python3
"""Development tool: prompts for a round of property-PRESERVING changes (the checks must build against them and stay silent).
usage: tools/make_benign_prompts.py <round-file.json> <outdir>   (round file: {worktree-name: [property id, extra ideas]})"""
import json, sys, os
props = {}
for l in open('/verif/properties.jsonl'):
    p = json.loads(l); props[p['id']] = p
TMPL = '''You are helping test a verification effort for the Rust crate `palette` (Ogeon/palette). This time your job is the OPPOSITE of bug seeding: write several realistic changes to palette that do NOT break the property below — refactors, optimisations, API-compatible relaxations, and legitimate behaviour changes in areas the property does not speak about — so that we can confirm a checker for this property stays silent on them (no false alarms) and still builds against them.

Your private scratch git worktree of the repository is {wt} . Work ONLY inside that directory (never touch /repo or /verif, never read /verif). The sandbox has no network: always pass --offline to cargo, and set CARGO_TARGET_DIR={wt}/target for every cargo command. Do not contact other agents.

THE PROPERTY (id {pid}) — "{title}":
STATEMENT: {statement}
QUANTIFIER: {qtext}
ANCHORS: {anchors}

WHAT TO PRODUCE: 4 to 6 INDEPENDENT patches (each against the clean checkout, not stacked), each touching only files under palette/src, mostly in the anchored files. Each must keep the property TRUE for every input/history in the quantifier, must compile with default features and with `--features random,serializing`, and must keep `cargo test --workspace --no-fail-fast --offline` green (run the full suite once per patch or at least for the riskiest ones; always run `cargo build -p palette --offline --features random,serializing` and `cargo test -p palette --lib --offline --features random,serializing` per patch). Aim for VARIETY and for changes that could plausibly trip an over-strict or brittle checker, for example:
 - a semantics-preserving rewrite of the core mechanism (different loop structure, helper functions, different order of independent operations);
 - relaxing or tightening a trait bound on a public function/impl in a way every real color type still satisfies; adding a new inherent method, a new trait impl, or a method override that is CORRECT;
 - changing something the property does not promise: error message wording, panic message wording, capacity strategy, Debug output, rejecting vs ignoring input the library never produces itself, performance shortcuts that return identical results;
 - internal representation changes that keep behaviour identical.
Write yourself a small differential test (not part of any diff) that convinces you the property still holds with each patch.
{extra}
For each patch N (1-based) put in {wt}/benign_out/ : `N.diff` (output of `git diff -- palette/src` for that patch alone, must apply with `git apply` on the clean checkout) and add an entry to `{wt}/benign_out/meta.json` = a JSON list of {{"n": N, "summary": "...", "why_property_still_holds": "...", "ran": ["commands and outcomes"]}}. Reset the worktree (`git checkout -- palette/src`) between patches. Finally reply with a short list of the patches. Do not leave cargo processes running.'''
rounds = json.load(open(sys.argv[1])); outdir = sys.argv[2]; os.makedirs(outdir, exist_ok=True)
for name, (pid, extra) in rounds.items():
    p = props[pid]
    open(os.path.join(outdir, name + '.txt'), 'w').write(TMPL.format(wt='/tmp/wt-' + name, pid=pid, title=p['title'], statement=p['statement'], qtext=p['quantifier']['text'], anchors=json.dumps(p['anchors']), extra=extra))
    print(name, pid)
