#!/usr/bin/env python3
"""Development tool: writes the prompts for one round of independently written property-breaking changes.

usage: tools/make_seed_prompts.py <round-file.json> <outdir>
The round file maps a worktree name to [property id, steer]. The prompt holds the property text, the steer (a
description of territory in palette, never of the harness), the summaries of the changes already delivered for
that property ("do not repeat") and the deliverables. Nothing from /verif beyond the property text goes in.
"""
import json, sys, os, glob

props = {}
for l in open('/verif/properties.jsonl'):
    p = json.loads(l)
    props[p['id']] = p

TMPL = '''You are helping test a verification effort for the Rust crate `palette` (Ogeon/palette). Your job: write ONE realistic change to palette that BREAKS the property below, while the crate still compiles and its existing default test suite still passes, plus a demonstration that exposes the break.

Your private scratch git worktree of the repository is {wt} . Work ONLY inside that directory (never touch /repo or /verif, never read /verif). The sandbox has no network: always pass --offline to cargo, and set CARGO_TARGET_DIR={wt}/target for every cargo command so build output stays in your worktree.

THE PROPERTY (id {pid}) — "{title}":
STATEMENT: {statement}
QUANTIFIER: {qtext}
WHY TESTS CAN'T SETTLE IT: {why}
ANCHORS: {anchors}

STEER (to keep your change different from other people's): {steer}

IDEAS ALREADY DELIVERED BY OTHERS — do NOT repeat any of these or a close variant:
{done}

REQUIREMENTS FOR THE CHANGE
1. It must look like something a real contributor could plausibly commit (a refactor, an "optimisation", a "simplification", a well-meant robustness tweak, a copy-paste slip) — not sabotage with a magic constant, and not a change guarded by cfg(test).
2. It must still compile with default features AND with `--features random,serializing`: `cargo build -p palette --offline` and `cargo build -p palette --offline --features random,serializing`.
3. The existing suite must still pass with the change: `cargo test --workspace --no-fail-fast --offline` (this takes a few minutes; run it and check every "test result:" line is ok). Do not edit any existing test.
4. It must need something SPECIFIC to manifest — a particular multi-step sequence of operations, a fault at a particular point (a panic/unwind, an I/O error, a leaked or half-consumed object, an error returned by a callback/peer), an unusual-but-legal input or configuration, or two cooperating sites that each look fine alone. NOT something ordinary use of the API would expose immediately on the first call with a typical value.
5. Keep it small (ideally < 40 changed lines), touching only files under palette/src.
6. It must really contradict the property AS STATED (re-read the statement): a behaviour the statement does not speak about is not a break.

THE DEMONSTRATION
Write an integration test file `palette/tests/demo_seed.rs` (create the directory if needed) with one or more #[test] functions that use only palette's public API (plus serde_json / ron / rand / rand_mt / serde if you need them — check palette/Cargo.toml [dev-dependencies] for what is available offline) such that
  `cargo test -p palette --test demo_seed --offline --features random,serializing`
FAILS with your change applied and PASSES on the unchanged code (verify both: use `git diff -- palette/src > x; git checkout -- palette/src; ...; git apply x`).

DELIVERABLES — put them in {wt}/seed_out/ :
  patch.diff  — output of `git diff -- palette/src` from the worktree root (only the change to palette/src, NOT the demo), must apply with `git apply` on a clean checkout of the same commit
  demo.rs     — a copy of palette/tests/demo_seed.rs
  meta.json   — {{"property": "{pid}", "summary": "<what the change does, 1-3 sentences>", "needs": "<what exactly is needed for the break to manifest>", "why_existing_tests_pass": "<...>", "author_ran": ["<each command you ran and its outcome>"]}}
Finally reply with a short report: the summary, what it needs to manifest, and the outcome of each verification command. Do not leave cargo processes running. Do not delete your worktree.'''


def done_list(pid):
    out = []
    for m in sorted(glob.glob('/verif/seeded/%s-*/meta.json' % pid)):
        try:
            d = json.load(open(m))
        except Exception:
            continue
        s = d.get('summary', '').replace('\n', ' ')
        out.append(' - ' + s[:260])
    return '\n'.join(out)


def main():
    rounds = json.load(open(sys.argv[1]))
    outdir = sys.argv[2]
    os.makedirs(outdir, exist_ok=True)
    for name, (pid, steer) in rounds.items():
        p = props[pid]
        s = TMPL.format(wt='/tmp/wt-' + name, pid=pid, title=p['title'], statement=p['statement'],
                        qtext=p['quantifier']['text'], why=p['why_tests_cant'], anchors=json.dumps(p['anchors']),
                        steer=steer, done=done_list(pid))
        open(os.path.join(outdir, name + '.txt'), 'w').write(s)
        print(name, pid, len(s))


if __name__ == '__main__':
    main()
