#!/bin/bash
# Development tool: (re)generates /verif/sensitivity/*.diff — my own deliberate
# property-breaking edits (DESIGN §4 "sensitivity edits"), each a small sed edit made in
# a scratch worktree of /repo's HEAD and saved as a patch. They complement the
# independently written changes in /verif/seeded/.
set -u
wt=/tmp/sens-wt
git -C /repo worktree remove --force $wt 2>/dev/null; rm -rf $wt
git -C /repo worktree add -q --detach $wt HEAD || exit 2
out="${SENS_OUT:-/verif/sensitivity}"
mkdir -p $out
mk() { # id property description file sed-args...
  local id="$1" prop="$2" desc="$3" file="$4"; shift 4
  git -C $wt checkout -q -- .
  for e in "$@"; do sed -i -E "$e" "$wt/$file"; done
  if git -C $wt diff --quiet; then echo "NO-CHANGE $id"; return; fi
  { echo "# property=$prop"; echo "# $desc"; git -C $wt diff; } > "$out/$id.diff"
  echo "ok $id ($(git -C $wt diff --numstat | awk '{print $1"+/"$2"-"}'))"
}
P=palette/src
# ---- C13
mk s13-slice-forget-removed C13 "slice from_color_mut: the per-element guard is dropped instead of forgotten (converted back at once)" \
  $P/convert/from_into_color_mut.rs 's/core::mem::forget\(T::from_color_mut\(color\)\);/let _back_at_once = T::from_color_mut(color);/'
mk s13-drop-noop C13 "clamped guard Drop no longer restores" \
  $P/convert/from_into_color_mut.rs 's/core::mem::forget\(self\.current\.take\(\)\.map\(U::from_color_mut\)\);/let _ = self.current.take();/'
mk s13-unclamped-drop-noop C13 "unclamped guard Drop no longer restores" \
  $P/convert/from_into_color_unclamped_mut.rs 's/core::mem::forget\(self\.current\.take\(\)\.map\(U::from_color_unclamped_mut\)\);/let _ = self.current.take();/'
mk s13-vec-manuallydrop-removed C13 "map_vec_in_place without ManuallyDrop: double drop when the conversion panics" \
  $P/cast/array.rs '1421,1448s/let mut values = ManuallyDrop::new\(into_array_vec\(values\)\);/let mut values = into_array_vec(values);/' \
  '1421,1448s/from_array_vec\(ManuallyDrop::into_inner\(values\)\)/from_array_vec(values)/'
mk s13-box-manuallydrop-removed C13 "map_slice_box_in_place without ManuallyDrop: double drop when the conversion panics" \
  $P/cast/array.rs '1455,1483s/let mut values = ManuallyDrop::new\(into_array_slice_box\(values\)\);/let mut values = into_array_slice_box(values);/' \
  '1455,1483s/for item in &mut \*\*values/for item in \&mut *values/' \
  '1455,1483s/from_array_slice_box\(ManuallyDrop::into_inner\(values\)\)/from_array_slice_box(values)/'
mk s13-vec-fresh-allocation C13 "Vec::from_color builds its result in a fresh allocation (plain into_iter().map().collect() would NOT do: std's in-place collect specialisation reuses the buffer)" \
  $P/convert/from_into_color.rs 's/cast::map_vec_in_place\(color, U::from_color\)/{ let mut out = alloc::vec::Vec::with_capacity(color.len()); out.extend(color.into_iter().map(U::from_color)); out }/'
mk s13-into-unclamped-guard-restores C13 "into_unclamped_guard converts back and forth (clamps the contents on the way)" \
  $P/convert/from_into_color_mut.rs '/pub fn into_unclamped_guard/,/^    }/s/current: self\.current\.take\(\),/current: Some(T::from_color_unclamped_mut(self.restore())).and_then(|mut g| g.current.take()),/'
# ---- C18
mk s18-hue-clear-skips-hue C18 "hue collections: clear leaves the hue vector alone" \
  $P/macros/struct_of_arrays.rs '1318,1328s/^                self\.hue\.clear\(\);$/                let _ = \&self.hue;/'
mk s18-alpha-drain-full C18 "Alpha::drain drains the whole alpha vector (non-hue macro)" \
  $P/macros/struct_of_arrays.rs '1222,1230s/alpha: self\.alpha\.drain\(range\),/alpha: self.alpha.drain(..),/'
mk s18-pop-order C18 "hue collections: pop returns before popping the other components when the hue vector is empty ... and pops hue twice otherwise" \
  $P/macros/struct_of_arrays.rs '1310,1312s/let hue = self\.hue\.pop\(\);/let hue = { let _ = self.hue.pop(); self.hue.pop() };/'
# ---- C19
mk s19-cone-cbrt-to-sqrt C19 "HSV cone: value drawn with sqrt instead of cbrt (coordinate- instead of volume-uniform)" \
  $P/random_sampling/cone.rs '29s/value: r1\.cbrt\(\),/value: r1.sqrt(),/'
mk s19-cylinder-radius-no-sqrt C19 "cylinder Uniform: radius sample without the square root" \
  $P/macros/random.rs '374s/self\.\$radius\.sample\(rng\)\.sqrt\(\)/self.$radius.sample(rng)/'
mk s19-cylinder-standard-no-sqrt C19 "[NOT a violation of the property as stated - expected silent] cylinder Standard: radius without the square root (inside the bounds; only a cylinder, which the volume clause does not cover)" \
  $P/macros/random.rs '294s/rng\.gen::<T>\(\)\.sqrt\(\)/rng.gen::<T>()/'
mk s19-bicone-height-linear C19 "bicone: height taken linearly from r1 (no cube root): coordinate- instead of volume-uniform lightness" \
  $P/random_sampling/cone.rs '74s/let height = r1\.cbrt\(\);/let height = r1;/'
# ---- C20
mk s20-alpha-key-renamed C20 "SerializeStruct::end writes the key \"a\" instead of \"alpha\"" \
  $P/serde/alpha_serializer.rs '/impl<S, A> SerializeStruct for/,/^}/s/serialize_field\("alpha", self\.alpha\)/serialize_field("a", self.alpha)/'
mk s20-visit-bytes-case C20 "visit_bytes compares with b\"Alpha\"" \
  $P/serde/alpha_deserializer.rs 's/if v == b"alpha" \{/if v == b"Alpha" {/'
mk s20-visit-u64-off-by-one C20 "visit_u64 takes field_count + 1 for alpha" \
  $P/serde/alpha_deserializer.rs 's/if v == field_count as u64 \{/if v == field_count as u64 + 1 {/'
mk s20-optional-alpha-ignored C20 "deserialize_with_optional_alpha always answers full opacity, also when an alpha was read" \
  $P/serde.rs 's/alpha: alpha\.unwrap_or_else\(A::max_intensity\),/alpha: { let _ = alpha; A::max_intensity() },/'
mk s20-tuple-len C20 "serialize_tuple_struct declares len instead of len + 1" \
  $P/serde/alpha_serializer.rs 's/inner: self\.inner\.serialize_tuple_struct\(name, len \+ 1\)\?,/inner: self.inner.serialize_tuple_struct(name, len)?,/'
mk s20-unit-struct-alpha-lost C20 "unit struct color with alpha: serialize_unit_struct writes the alpha as a unit struct (alpha lost)" \
  $P/serde/alpha_serializer.rs 's/self\.inner\.serialize_newtype_struct\(name, self\.alpha\)/{ let _ = self.alpha; self.inner.serialize_unit_struct(name) }/'
mk s20-de-tuple-len C20 "AlphaDeserializer::deserialize_tuple and deserialize_tuple_struct ask for len instead of len + 1 (invisible to JSON and RON, which ignore the requested length)" \
  $P/serde/alpha_deserializer.rs '30,65s/^(\s*)len \+ 1,$/\1len,/'
mk s20-sloppy-alpha-key C20 "the alpha key is compared ignoring ASCII case (a foreign key \"Alpha\" becomes the alpha)" \
  $P/serde/alpha_deserializer.rs 's/if v == "alpha" \{/if v.eq_ignore_ascii_case("alpha") {/'
mk s20-index-alpha-ge C20 "any field index >= field_count is taken for alpha" \
  $P/serde/alpha_deserializer.rs 's/if v == field_count as u64 \{/if v >= field_count as u64 {/'
git -C /repo worktree remove --force $wt; rm -rf $wt
ls $out | wc -l
