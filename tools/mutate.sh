#!/bin/bash
# Sensitivity helper (development tool, not a registered check).
# usage: tools/mutate.sh <property> <file-under-/repo> <sed-expression> [extra palsim args]
# Applies one deliberate property-breaking edit to /repo, rebuilds, runs the
# check's quick tier, prints whether it was caught, and always restores /repo.
set -u
prop="$1"; file="$2"; expr="$3"; shift 3
cd /repo || exit 2
if ! git diff --quiet; then echo "mutate: /repo is dirty, refusing"; exit 2; fi
trap 'git -C /repo checkout -- . >/dev/null 2>&1' EXIT
sed -i -E "$expr" "$file"
if git diff --quiet; then echo "mutate: edit did not change $file"; exit 2; fi
git diff --stat | tail -1
out=$(cd /verif && VERIF_EVIDENCE_DIR=/tmp/mutate-evidence ./check "$prop" "$@" 2>&1); code=$?
echo "$out" | grep -E "^(VIOLATION|violation at|  detail|palsim: harness|error)" | head -8
echo "mutate: exit=$code"
