#!/bin/bash
# Development tool: takes a sub-agent's deliverables from /tmp/wt-<name>/seed_out, stores them as
# /verif/seeded/<id>/, confirms the change myself (tools/confirm_seed.sh), runs the quick check against it
# on a scratch lane (tools/scratch_check.sh, working-copy simulator), writes meta.json, removes the worktree.
# usage: tools/process_seed.sh <wt-name> <seed-id> <lane> [note]
name="$1"; id="$2"; lane="$3"; note="${4:-}"
wt="/tmp/wt-$name"; d="/verif/seeded/$id"; prop="${id%%-*}"
mkdir -p "$d" && cp "$wt/seed_out/patch.diff" "$wt/seed_out/demo.rs" "$wt/seed_out/meta.json" "$d/" || { echo "process_seed: deliverables missing in $wt/seed_out"; exit 2; }
/verif/tools/confirm_seed.sh "$wt" "$d" > "/tmp/confirm-$id.log" 2>&1
/verif/tools/scratch_check.sh "$lane" "$prop" --patch "$d/patch.diff" > "/tmp/sc-$id.log" 2>&1
python3 /verif/tools/seed_meta.py "$id" "/tmp/confirm-$id.log" "/tmp/sc-$id.log" "$note"
rm -f "$d/confirm.txt"
echo "$id confirm: $(paste -sd' ' /tmp/confirm-$id.log)"
cut -c1-400 "/tmp/sc-$id.log"
git -C /repo worktree remove --force "$wt"
