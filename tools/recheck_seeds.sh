#!/bin/bash
# Development tool: re-runs the quick check against EVERY seeded change (or the ids given) with the
# simulator as it is now, on scratch lanes, and writes /verif/seeded/RECHECK.txt (one line per change).
# usage: tools/recheck_seeds.sh [lanes=4] [id ...]
set -u
lanes="${1:-4}"; shift || true
cd /verif/seeded || exit 2
ids=("$@"); [ ${#ids[@]} -eq 0 ] && ids=($(ls -d C* | sort -t- -k1,1 -k2,2n))
tmp=$(mktemp -d)
i=0
for id in "${ids[@]}"; do echo "$id" >> "$tmp/q$((i % lanes))"; i=$((i+1)); done
for l in $(seq 0 $((lanes-1))); do
  [ -f "$tmp/q$l" ] || continue
  (
    while read -r id; do
      prop="${id%%-*}"
      /verif/tools/scratch_check.sh "r$l" "$prop" --patch "/verif/seeded/$id/patch.diff" | sed "s/^scratch:/$id:/" | cut -c1-330 >> "$tmp/r$l"
    done < "$tmp/q$l"
    /verif/tools/scratch_check.sh "r$l" --clean
  ) &
done
wait
cat "$tmp"/r* | sort -t- -k1,1 -k2,2n > "$tmp/new"
if [ -f /verif/seeded/RECHECK.txt ]; then
  grep -v '^#' /verif/seeded/RECHECK.txt | while IFS= read -r line; do
    pid="${line%%:*}"
    [ -d "/verif/seeded/$pid" ] && ! grep -q "^$pid:" "$tmp/new" && echo "$line"
  done > "$tmp/old"
fi
cat "$tmp/new" "$tmp/old" 2>/dev/null | sort -t- -k1,1 -k2,2n > "$tmp/all"
{ echo "# every seeded change against the simulator at $(git -C /verif rev-parse --short HEAD) (+ working copy), /repo at $(git -C /repo rev-parse --short HEAD), $(date -u +%F); merged over runs"; cat "$tmp/all"; } > /verif/seeded/RECHECK.txt
echo "not caught: $(grep -v '^#' /verif/seeded/RECHECK.txt | grep -vc 'exit=1 ')"
grep -v '^#' /verif/seeded/RECHECK.txt | grep -v 'exit=1 ' | cut -c1-200
rm -rf "$tmp"
