#!/bin/bash
# Development tool: runs every patch in /verif/benign (property-PRESERVING changes written by independent
# sub-agents: refactors, bound tweaks, behaviour changes outside the property) through the quick check on
# scratch lanes. Expected: exit 0 for each (no false alarm, harness still builds). Writes benign/RESULTS.txt.
# usage: tools/run_benign.sh [lanes=4] [id ...]
set -u
lanes="${1:-4}"; shift || true
cd /verif/benign || exit 2
ids=("$@"); [ ${#ids[@]} -eq 0 ] && ids=($(ls *.diff | sed 's/\.diff$//'))
tmp=$(mktemp -d)
i=0
for id in "${ids[@]}"; do echo "$id" >> "$tmp/q$((i % lanes))"; i=$((i+1)); done
for l in $(seq 0 $((lanes-1))); do
  [ -f "$tmp/q$l" ] || continue
  (
    while read -r id; do
      prop=$(grep -m1 '^# property=' "$id.diff" | sed 's/# property=//')
      /verif/tools/scratch_check.sh "b$l" "$prop" --patch "/verif/benign/$id.diff" | sed "s/^scratch:/$id:/" | cut -c1-400 >> "$tmp/r$l"
    done < "$tmp/q$l"
    /verif/tools/scratch_check.sh "b$l" --clean
  ) &
done
wait
cat "$tmp"/r* | sort > "$tmp/new"
if [ -f /verif/benign/RESULTS.txt ]; then
  grep -v '^#' /verif/benign/RESULTS.txt | while IFS= read -r line; do
    pid="${line%%:*}"
    [ -f "/verif/benign/$pid.diff" ] && ! grep -q "^$pid:" "$tmp/new" && echo "$line"
  done > "$tmp/old"
fi
cat "$tmp/new" "$tmp/old" 2>/dev/null | sort > "$tmp/all"
{ echo "# property-preserving changes; expected exit=0. merged over runs; last run $(date -u +%F), simulator at $(git -C /verif rev-parse --short HEAD) (+ working copy)"; cat "$tmp/all"; } > /verif/benign/RESULTS.txt
echo "not silent: $(grep -v '^#' /verif/benign/RESULTS.txt | grep -vc 'exit=0 ')"
grep -v '^#' /verif/benign/RESULTS.txt | grep -v 'exit=0 ' | cut -c1-300
rm -rf "$tmp"
