#!/bin/bash
# Development tool: runs every patch in /verif/sensitivity (or the ones named on the
# command line) through tools/scratch_check.sh on up to 4 scratch lanes in parallel and
# writes one line per patch to /verif/sensitivity/RESULTS.txt.
# usage: tools/run_sens.sh [lanes=4] [id ...]
set -u
lanes="${1:-4}"; shift || true
cd /verif/sensitivity || exit 2
ids=("$@"); [ ${#ids[@]} -eq 0 ] && ids=($(ls *.diff | sed 's/\.diff$//'))
tmp=$(mktemp -d)
i=0
for id in "${ids[@]}"; do echo "$id" >> "$tmp/q$((i % lanes))"; i=$((i+1)); done
for l in $(seq 0 $((lanes-1))); do
  [ -f "$tmp/q$l" ] || continue
  (
    while read -r id; do
      prop=$(grep -m1 '^# property=' "$id.diff" | sed 's/# property=//')
      /verif/tools/scratch_check.sh "s$l" "$prop" --patch "/verif/sensitivity/$id.diff" | sed "s/^scratch:/$id:/" >> "$tmp/r$l"
    done < "$tmp/q$l"
    /verif/tools/scratch_check.sh "s$l" --clean
  ) &
done
wait
cat "$tmp"/r* | sort > "$tmp/new"
# merge: lines of patches that were not re-run (and still exist) are kept
if [ -f /verif/sensitivity/RESULTS.txt ]; then
  grep -v '^#' /verif/sensitivity/RESULTS.txt | while IFS= read -r line; do
    pid="${line%%:*}"
    [ -f "/verif/sensitivity/$pid.diff" ] && ! grep -q "^$pid:" "$tmp/new" && echo "$line"
  done > "$tmp/old"
fi
cat "$tmp/new" "$tmp/old" 2>/dev/null | sort > "$tmp/all"
{ echo "# merged over runs; last run $(date -u +%F) with the simulator at $(git -C /verif rev-parse --short HEAD) (+ working copy), /repo at $(git -C /repo rev-parse --short HEAD)"; cat "$tmp/all"; } > /verif/sensitivity/RESULTS.txt
cat /verif/sensitivity/RESULTS.txt | cut -c1-200
rm -rf "$tmp"
