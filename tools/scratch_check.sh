#!/bin/bash
# Development tool (not a registered check): run a property's check against a
# *scratch worktree* of /repo with a change applied, so that bulk sensitivity work
# never touches /repo itself and several lanes can run side by side.
#
#   tools/scratch_check.sh <lane> <property> --patch <file>        [palsim args]
#   tools/scratch_check.sh <lane> <property> --sed <file> <expr>   [palsim args]
#   tools/scratch_check.sh <lane> <property> --none                [palsim args]   (unchanged tree)
#   tools/scratch_check.sh <lane> --clean
#
# A lane is /tmp/sc-lane-<lane>: a detached worktree of /repo's HEAD plus a copy of
# /verif/sim whose palette dependency points into the worktree. The lane is kept
# between calls (dependencies stay compiled) and removed by --clean.
# SC_SIM_DIR=<dir>: copy the simulator from there instead of /verif/sim.
# SC_COMMITTED=1: use the simulator as committed in /verif instead of the working copy.
# Prints one line: "scratch: lane=.. property=.. change=.. exit=.. seconds=.. :: <first violation>"
set -u
lane="$1"; shift
wt="/tmp/sc-lane-$lane"
if [ "${1:-}" = "--clean" ]; then
  git -C /repo worktree remove --force "$wt" 2>/dev/null
  rm -rf "$wt"
  git -C /repo worktree prune
  exit 0
fi
prop="$1"; shift
mode="$1"; shift
export CARGO_NET_OFFLINE=true
if [ ! -d "$wt/.git" ] && [ ! -f "$wt/.git" ]; then
  rm -rf "$wt"
  git -C /repo worktree add -q --detach "$wt" HEAD || { echo "scratch: cannot create worktree"; exit 2; }
fi
git -C "$wt" checkout -q --detach "$(git -C /repo rev-parse HEAD)" 2>/dev/null
git -C "$wt" checkout -q -- . 2>/dev/null
change="unchanged"
case "$mode" in
  --patch) patch="$1"; shift; change="$patch"
           git -C "$wt" apply "$patch" || { echo "scratch: lane=$lane property=$prop change=$change exit=2 :: patch does not apply"; exit 2; } ;;
  --sed)   file="$1"; expr="$2"; shift 2; change="sed $file $expr"
           sed -i -E "$expr" "$wt/$file"
           if git -C "$wt" diff --quiet; then echo "scratch: lane=$lane property=$prop change=$change exit=2 :: edit changed nothing"; exit 2; fi ;;
  --none)  ;;
  *) echo "scratch: unknown mode $mode"; exit 2 ;;
esac
mkdir -p "$wt/.sim" "$wt/.vd"
if [ -n "${SC_COMMITTED:-}" ]; then
  # the simulator as committed in /verif (not the working copy)
  rm -rf "$wt/.simsrc"; mkdir -p "$wt/.simsrc"
  git -C /verif archive HEAD sim | tar -x -C "$wt/.simsrc"
  rsync -a --delete --exclude target "$wt/.simsrc/sim/" "$wt/.sim/"
else
  rsync -a --delete --exclude target "${SC_SIM_DIR:-/verif/sim}/" "$wt/.sim/"
fi
sed -i "s#/repo/palette#$wt/palette#" "$wt/.sim/Cargo.toml"
cp /verif/known_findings.json "$wt/.vd/"
start=$(date +%s)
world="$(echo "$prop" | tr 'A-Z' 'a-z')"
if ! (cd "$wt/.sim" && cargo build --release --offline -p palsim --bin "palsim-$world" --no-default-features --features "$world" >"$wt/.vd/build.log" 2>&1); then
  echo "scratch: lane=$lane property=$prop change=$change exit=2 :: harness does not build: $(grep -m1 -E '^error' "$wt/.vd/build.log")"
  exit 2
fi
out=$(VERIF_DIR="$wt/.vd" "$wt/.sim/target/release/palsim-$world" run "$prop" --tier quick --evidence "$wt/.vd/ev.json" "$@" 2>&1); code=$?
end=$(date +%s)
first=$(echo "$out" | grep -E "^(violation at|  detail|palsim: harness)" | head -2 | tr '\n' ' ' | cut -c1-420)
echo "scratch: lane=$lane property=$prop change=$change exit=$code seconds=$((end-start)) :: $first"
exit $code
