#!/usr/bin/env python3
"""usage: seed_meta.py <seed-id> <confirm-log> <detect-log> [note]
Merges the author's meta.json (written by the independent sub-agent) with what I
confirmed myself (tools/confirm_seed.sh) and with the detection result
(tools/scratch_check.sh / tools/try_seed.sh output line)."""
import json, re, sys, os
sid, conf, det = sys.argv[1:4]
note = sys.argv[4] if len(sys.argv) > 4 else ""
d = f"/verif/seeded/{sid}"
m = json.load(open(f"{d}/meta.json"))
prop = m.get("property") or sid.split("-")[0]
out = {
    "id": sid,
    "property": prop,
    "summary": m.get("summary", ""),
    "needs": m.get("needs", ""),
    "why_existing_tests_pass": m.get("why_existing_tests_pass", ""),
    "origin": "written by an independent sub-agent that was given only the property text and a scratch worktree of /repo (nothing from /verif)",
    "confirmed_by_me": {
        "how": "tools/confirm_seed.sh in a scratch worktree (apply, build with and without features, cargo test --workspace --no-fail-fast --offline, demo with and without the change)",
        "result": [l.strip() for l in open(conf) if l.strip()],
    },
    "author_ran": m.get("author_ran", []),
}
line = [l for l in open(det) if l.startswith("scratch:") or l.startswith("try_seed:") or l.startswith("violation at")]
text = " ".join(l.strip() for l in line)
mm = re.search(r"exit=(\d+)", text)
idx = re.search(r"plan index (\d+)", text)
cls = re.search(r"class=(.+?) key=", text)
out["detection"] = {
    "check": f"./check {prop} --tier quick",
    "caught": bool(mm and mm.group(1) == "1"),
    "first_violation_plan_index": int(idx.group(1)) if idx else None,
    "violation_class": cls.group(1) if cls else None,
    "how_run": "tools/scratch_check.sh (the committed simulator built against a scratch worktree of /repo with the change applied; /repo itself untouched)",
    "raw": text[:700],
}
if note:
    out["detection"]["note"] = note
json.dump(out, open(f"{d}/meta.json", "w"), indent=1)
print(sid, out["detection"]["caught"], out["detection"]["violation_class"])
