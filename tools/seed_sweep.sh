#!/bin/bash
# Development tool: looks for false alarms under other VERIF_SEED values.
# usage: tools/seed_sweep.sh [first=1] [last=40] [properties...]     (quick tier, unchanged tree)
# Builds once, then runs palsim directly. Prints one line per (property, seed) that did not exit 0.
first="${1:-1}"; last="${2:-40}"; shift 2 2>/dev/null
props=("$@"); [ ${#props[@]} -eq 0 ] && props=(C13 C18 C19 C20)
here="$(cd "$(dirname "${BASH_SOURCE[0]}")/.." && pwd)"
export CARGO_NET_OFFLINE=true VERIF_DIR="$here"
(cd "$here/sim" && cargo build --release --offline >/dev/null 2>&1) || { echo "sweep: build failed"; exit 2; }
bad=0; n=0
for p in "${props[@]}"; do
  for s in $(seq "$first" "$last"); do
    out=$("$here/sim/target/release/palsim" run "$p" --tier quick --seed "$s" --evidence "/tmp/sweep-ev-$p.json" 2>&1); code=$?
    n=$((n+1))
    if [ $code -ne 0 ]; then bad=$((bad+1)); echo "sweep: property=$p seed=$s exit=$code"; echo "$out" | grep -E "^(violation at|  detail|palsim: harness)" | head -3; fi
  done
  echo "sweep: $p seeds $first..$last done"
done
echo "sweep: $n runs, $bad not clean"
[ $bad -eq 0 ]
