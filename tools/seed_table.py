#!/usr/bin/env python3
"""Regenerates the table of seeded changes in DESIGN.md (between the SEED-TABLE markers)
from /verif/seeded/*/meta.json and the table of my own edits from sensitivity/RESULTS.txt."""
import json, glob, os, re
rows = []
for d in sorted(glob.glob('/verif/seeded/C*-*'), key=lambda p: (p.split('/')[-1].split('-')[0], int(p.split('-')[-1]))):
    m = json.load(open(d + '/meta.json'))
    det = m.get('detection', {})
    what = m.get('summary', '').replace('|', '/').replace('\n', ' ')
    what = what if len(what) < 230 else what[:227] + '...'
    by = det.get('violation_class') or det.get('violation', '')
    by = str(by).replace('|', '/')[:90]
    caught = 'yes' if det.get('caught') else '**no**'
    note = det.get('note', '')
    if note.startswith('MISSED'):
        caught = 'yes, after strengthening (missed first)'
    if note.startswith('NOT REPORTED ANY MORE') or note.startswith('NOT A VIOLATION'):
        caught = 'no, on purpose: not a violation of the property as stated'
    rows.append(f"| {m.get('id', d.split('/')[-1])} | {what} | {caught} | {by} | {det.get('first_violation_plan_index','')} |")
table = ["| id | change | caught by quick tier | violation class | first plan index |", "|---|---|---|---|---|"] + rows
sens = []
rp = '/verif/sensitivity/RESULTS.txt'
if os.path.exists(rp):
    for l in open(rp):
        if l.startswith('#') or not l.strip():
            continue
        mid = l.split(':', 1)[0]
        ex = re.search(r'exit=(\d+)', l)
        cls = re.search(r'class=(.+?) key=', l)
        desc = ''
        dp = f'/verif/sensitivity/{mid}.diff'
        if os.path.exists(dp):
            ls = open(dp).read().split('\n')
            desc = ls[1].lstrip('# ') if len(ls) > 1 else ''
        verdict = 'yes' if ex and ex.group(1)=='1' else '**no** (exit ' + (ex.group(1) if ex else '?') + ')'
        if desc.startswith('[NOT a violation') and ex and ex.group(1)=='0':
            verdict = 'silent, as it should be'
        sens.append(f"| {mid} | {desc} | {verdict} | {cls.group(1) if cls else ''} |")
stable = ["| id | edit | caught by quick tier | violation class |", "|---|---|---|---|"] + sens
p = '/verif/DESIGN.md'
s = open(p).read()
def put(s, tag, lines):
    a, b = f'<!-- {tag}-BEGIN -->', f'<!-- {tag}-END -->'
    block = a + '\n' + '\n'.join(lines) + '\n' + b
    if a in s:
        return re.sub(re.escape(a) + '.*?' + re.escape(b), lambda _: block, s, flags=re.S)
    return s + '\n' + block + '\n'
s = put(s, 'SEED-TABLE', table)
s = put(s, 'SENS-TABLE', stable)
open(p, 'w').write(s)
print(len(rows), 'seeded,', len(sens), 'sensitivity rows')
