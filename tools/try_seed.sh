#!/bin/bash
# usage: try_seed.sh <property> <patch.diff> [palsim args]
# Applies a seeded change to /repo, runs the property's check, reports, always restores /repo.
prop="$1"; patch="$2"; shift 2
cd /repo || exit 2
if ! git diff --quiet; then echo "try_seed: /repo is dirty, refusing"; exit 2; fi
trap 'git -C /repo checkout -- . >/dev/null 2>&1' EXIT
git apply "$patch" || { echo "try_seed: patch does not apply"; exit 2; }
start=$(date +%s)
out=$(cd /verif && VERIF_EVIDENCE_DIR=/tmp/seed-evidence ./check "$prop" "$@" 2>&1); code=$?
end=$(date +%s)
echo "$out" | grep -E "^(VIOLATION|violation at|  detail|palsim: harness|check: harness|error)" | cut -c1-400 | head -6
echo "try_seed: property=$prop patch=$patch exit=$code seconds=$((end-start))"
